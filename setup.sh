#!/bin/bash
# Offline setup: nothing to build; verify the tools the checks need are present.
set -e
cd "$(dirname "$0")"
test -x /venv/bin/python
test -f /opt/veriftools/tla/tla2tools.jar
java -version >/dev/null 2>&1
mkdir -p evidence replays
/venv/bin/python -c "import sys; sys.path.insert(0,'.'); import harness.rt, harness.pool, harness.tlc, harness.core"
echo setup ok
