#!/venv/bin/python
"""Regenerate MANIFEST.json from the table below (keeps it schema-valid at all times)."""
import json, os, sys
HERE = os.path.dirname(os.path.dirname(os.path.abspath(__file__)))
sys.path.insert(0, HERE)
from tools.manifest_table import CHECKS, PENDING, NOTES, ENGINES

ids = [json.loads(l)['id'] for l in open(os.path.join(HERE, 'properties.jsonl'))]
checks = []
for pid in ids:
    if pid not in CHECKS:
        continue
    c = CHECKS[pid]
    checks.append({
        'property_id': pid,
        'quick_cmd': './check %s --tier quick' % pid,
        'thorough_cmd': './check %s --tier thorough' % pid,
        'evidence_file': 'evidence/%s.json' % pid,
        'replay_cmd_template': './check %s --replay {path}' % pid,
        'engine': c['engine'],
        'level_claimed': {'category': c.get('category', 'model_checking'), 'text': c['text'], 'design_ref': c['design_ref']},
        'level_note': c['note'],
        'technique': c['technique'],
    })
na = [{'property_id': p, 'reason': PENDING[p]} for p in ids if p not in CHECKS]
m = {
    'version': 1,
    'setup_cmd': './setup.sh',
    'hooks': {
        'guard': 'AIUDIROG_AIUTI_VERIF',
        'enable': 'no source hooks: ./check sets AIUDIROG_AIUTI_VERIF=1 for its own processes and instruments the code from outside (sys.settrace line events, namespace substitution of blocking primitives, virtual-time event loop); /repo is imported from its working tree on every run (AIUTI_SRC overrides the path)',
        'baseline_off_cmd': 'cd /repo && /venv/bin/python -m pytest -ra -q -p no:cacheprovider --timeout=900 --continue-on-collection-errors',
        'source_commits': [],
        'add_only': True,
    },
    'engines': ENGINES,
    'checks': checks,
    'notes': NOTES,
    'not_applicable': na,
}
json.dump(m, open(os.path.join(HERE, 'MANIFEST.json'), 'w'), indent=1)
import subprocess
subprocess.check_call(["python3-vt", "-c", "import json,jsonschema,sys; jsonschema.validate(json.load(open(sys.argv[1])), json.load(open(\"/root/.vp/MANIFEST.schema.json\")))", os.path.join(HERE, "MANIFEST.json")])
print('MANIFEST.json: %d checks, %d not_applicable' % (len(checks), len(na)))
