#!/venv/bin/python
"""Print a markdown table of the TLC / Apalache runs recorded in the evidence files (model, configuration, distinct
states, generated states, depth, seconds, witness?)."""
import glob, json, os
HERE = os.path.dirname(os.path.dirname(os.path.abspath(__file__)))
rows = {}
for f in sorted(glob.glob(os.path.join(HERE, 'evidence', 'C*.json'))):
    e = json.load(open(f))
    for r in e['coverage'].get('mc_runs', []):
        key = (r['module'], r['cfg'])
        rows.setdefault(key, dict(r, props=[]))['props'].append(e['property_id'] + ('' if e['tier'] == 'quick' else '*'))
print('| Module | Configuration | Distinct states | Generated | Depth | s | Used by |')
print('|---|---|---:|---:|---:|---:|---|')
for (mod, cfg), r in sorted(rows.items()):
    w = ' (witness: TLC must find the violation)' if r.get('witness') else ''
    print('| %s | %s%s | %s | %s | %s | %s | %s |' % (mod, cfg.replace('.cfg', ''), w, r.get('distinct'), r.get('generated'), r.get('depth', ''), r.get('seconds'), ' '.join(r['props'])))
for f in sorted(glob.glob(os.path.join(HERE, 'evidence', 'C*.json'))):
    e = json.load(open(f))
    a = e['coverage'].get('apalache')
    if a:
        for r in a['runs']:
            print('| %s (Apalache) | %s: init=%s inv=%s length=%s | - | - | - | %s | %s |' % (a['module'], r['obligation'], r['init'], r['inv'], r['length'], r['seconds'], e['property_id']))
