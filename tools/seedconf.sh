#!/bin/bash
# show violations + model-conformance drift of one property's quick check under each matching seeded change
# usage: tools/seedconf.sh C17 [name-filter]
cd "$(dirname "$0")/.."
P=$1; F=${2:-$1}
for s in seeded/$F*; do
  n=$(basename $s); d=$(mktemp -d /tmp/seedconf-XXXX)
  git -C /repo worktree add -q --detach $d/src HEAD && git -C $d/src apply $PWD/$s/patch.diff || { echo "$n: patch failed"; continue; }
  out=$(AIUTI_SRC=$d/src VERIF_EVIDENCE_DIR=$d/ev VERIF_REPLAYS_DIR=$d/rp ./check $P --tier quick 2>&1); rc=$?
  c=$(/venv/bin/python -c "
import json; e=json.load(open('$d/ev/$P.json')); c=e.get('coverage',e).get('conformance') or {}
print({k:c.get(k) for k in ('traces_checked','accepted','drift','undecided','undecided_timeout') if k in c})" 2>/dev/null)
  echo "$n rc=$rc violations=$(echo "$out" | grep -c '^VIOLATION') conformance=$c"
  git -C /repo worktree remove --force $d/src; rm -rf $d
done
