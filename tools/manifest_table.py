TRUST = ('CPython 3.12 asyncio/threading/concurrent.futures internals are atomic between aiuti source lines; '
         'harness-controlled primitives (Lock/RLock, executor, futures, queue, sleep, virtual-time loop) are faithful; '
         'TLC 1.8; the contract monitor (TLA+) is a literal reading of the property statement')

def cache(text):
    return {'engine': 'tlc+runtime', 'design_ref': 'DESIGN.md §5', 'technique':
            'TLA+ model (Cache.tla) checked exhaustively by TLC with the contract monitor composed in; '
            'executions of the real code under a deterministic line-level scheduler validated by TLC against CacheContract.tla; a sample of the recorded executions is also validated action-by-action against Cache.tla (CacheConform.tla: silent internal steps, projected implementation state compared at every observable event)',
            'text': text, 'note': TRUST}

CHECKS = {
 'C01': cache('Exhaustive TLC exploration of the implementation-shaped cache model (3 loops x 1 caller, 2 x 2, full loop life cycles) '
              'shows the design is single-flight; thousands of executions of the real code under seeded random/PCT line-level schedules '
              'and loop life-cycle histories are validated by TLC against the contract monitor (C01_SingleFlight, C01_OnceDone, C01_OneResult). '
              'Witness configurations prove the interesting windows (take-over, cross-loop wait) are inside the bounds.'),
 'C05': cache('TLC checks termination of the cache model under weak fairness without the 60 s safety net, and safety with it; executions '
              'of the real code in virtual time are validated against C05_Terminates and C05_NoIdleWait (the clock may only advance while a '
              'computation for the key is live or within 60 s of the death of a loop the caller depended on).'),
 'C06': cache('TLC checks in the model that every call ends with its own outcome under cancellation, failures and loop shutdown; executions '
              'of the real code with cancels/time-outs/failures at grid instants are validated against C06_ForeignOutcome_* / C06_WrongValue.'),
}
MODELS = {
 'C02': 'FileLock.tla (implementation-shaped; exhaustive MC of C02_Exclusive incl. crashes) + FileLockConform.tla (recorded executions validated action-by-action against the model with projected state)',
 'C12': 'FileLock.tla (no-residue invariant Quiet, Progress under fairness)',
 'C13': 'FileLock.tla with Crash(p) at every control point (C13_NoOrphanLock, Progress with crashes)',
 'C03': 'Buffer.tla (timed; producers that deliver / fail / are empty, deferred puts, loaders, failing invocations; contract monitor composed in; witness W_D10) + BufferConform.tla',
 'C07': 'Buffer.tla (timed; wait(cancel) T/F with the wake-up semantics of Event.wait, loop shutdown at every phase: ShutdownTerminates / ShutdownCompletes, witness W_D3 = the repaired defect) + BufferConform.tla',
 'C08': 'Buffer.tla (timed: C08_Quiet / C08_Together decided for every arrival pattern within the bounds) + BufferConform.tla',
 'C04': 'Batcher.tla (timed, contract monitor composed in) + BatcherConform.tla',
 'C09': 'Batcher.tla with CancelCaller (witness W_D4 = the pre-repair behaviour) + BatcherConform.tla',
 'C10': 'Batcher.tla (sizes, concurrency, FIFO, share, deadline as invariants) + BatcherConform.tla',
 'C11': 'Batcher.tla (retention 0 and 3 ticks) + BatcherConform.tla',
 'C14': 'Cache.tla with Evict (the caller-supplied mapping drops the entry at any moment: own-outcome and single-flight invariants still hold)',
 'C16': 'IterBridge.tla (failure at every position; witnesses = seeded changes) + IterBridgeConform.tla',
 'C17': 'CrossLoop.tla (double-checked lock creation, temporary vs permanent runners; witness W_D7 = known finding; inductive invariant Apa_CrossLoop.tla discharged by Apalache; CrossLoopConform.tla binds it to recorded executions)',
}

def comp(spec, text, technique=None):
    return {'engine': 'tlc+runtime', 'design_ref': 'DESIGN.md §12', 'text': text, 'note': TRUST,
            'technique': technique or ('executions of the real code in virtual time under the deterministic runtime, '
                          'validated by TLC against the TLA+ contract monitor ' + spec)}

CHECKS.update({
 'C02': comp('LockContract.tla', 'Thousands of line-level (partly opcode-level) interleavings of 2..4 controlled threads over 1..2 FileLock objects '
             'on real descriptors with the real flock(2), all acquire forms and modes, plus free-running OS processes writing Enter/Exit '
             'inside the section; every trace is validated by TLC against C02_Exclusive / C02_HolderIsAcquirer.'),
 'C03': comp('BufferContract.tla', 'Timed programs of submissions of every kind with producer delays/failures, failing invocations, waits and foreign '
             'submitting threads, run in virtual time; TLC validates C03_OnlySubmitted, C03_KeptOnFailure, C03_AllDelivered, C03_ExactlyOnce.'),
 'C04': comp('BatcherContract.tla', 'Timed programs of calls with every per-key batch-function behaviour and result order; TLC validates that each call is '
             'answered with the first outcome yielded for its key in the batch that carried its request (C04_OwnOutcome, NoCrossKey, BatchFailure, Answered).'),
 'C07': comp('BufferContract.tla', 'wait(cancel) calls and loop shutdown at every grid instant, foreign submit-then-wait_from_anywhere under line-level schedules; '
             'TLC validates C07_Barrier, C07_Returns, C07_ShutdownTerminates.'),
 'C08': comp('BufferContract.tla', 'Exhaustive arrival-time grids {0, tau-1, tau, tau+1, 2tau}^n plus random immediate programs, durations and failures; TLC validates '
             'C08_Serial, C08_NonEmpty, C08_Quiet, C08_Together in exact virtual time; exact ties are not judged.'),
 'C09': comp('BatcherContract.tla', 'The C04 programs with cancels / time-outs of any subset of callers at grid instants (queued, running before the result, after it), '
             'shared and distinct keys; the same clauses for every non-cancelled caller.'),
 'C10': comp('BatcherContract.tla', 'Exhaustive arrival grids and random programs with max_batch_size mutated while running; TLC validates C10_Size, C10_Concurrency, '
             'C10_Fifo, C10_Share, C10_Deadline against the expected request FIFO kept by the monitor.'),
 'C11': comp('BatcherContract.tla', 'Exhaustive same-key gap grids around batch completion and the retention window plus random programs; the monitor keeps the expected '
             'request structure (join vs. new request) and TLC validates C11_NoDuplicateWork and C11_WrongRequest.'),
 'C12': comp('LockRef.tla', 'TLC enumerates, from the executable reference model LockRef.tla, a cover of every (reference state, operation) pair reachable within 7 '
             'operations (4 configurations, 2 threads x 2 objects, all argument forms, single/double OSError injection) plus simulated length-7 behaviours; each '
             'sequence is replayed on the real FileLock and every step (result, is_locked, descriptor count, in-process lock owner, duration) compared by TLC with Apply(). Overlapping operations of 2-3 threads on shared objects (random programs, a stall sweep that deschedules each thread at its '
             'k-th line for longer than the others need, unheld release() while another thread waits for the object) end with a FinalState observation and a probe of every '
             'object: C12_IsLocked, C12_InProcessLock, C12_NoLeak_fd, C12_Residue.',
             'operation sequences generated by TLC from the TLA+ reference model LockRef.tla are replayed into the real FileLock; recorded steps are validated by TLC against the same model'),
})
CHECKS['C13'] = comp('CrashTrace.tla', 'A forked victim process is SIGKILLed at every line event inside aiuti/filelock.py (blocking, timed, with, reentrant-nested, '
    'acquire_ctx, forced release, contended timed; also with a FileLock object inherited across fork) with 0..2 live contender processes; afterwards a fresh '
    'process must acquire within 2 s and the survivors must keep excluding each other; TLC validates every history (C13_StuckAfterCrash, C13_PromptAfterCrash, C13_SurvivorsExclusive).',
    'crash-point enumeration with real processes and the real flock(2); histories validated by TLC against CrashTrace.tla')
CHECKS['C13']['category'] = 'fault_enumeration'
CHECKS['C16'] = comp('BridgeContract.tla', 'Every source length 0..6 with a failure at every position for each source kind, plus thousands of random sources with producer '
    'step durations and consumer delays under seeded line-level schedules of the producer thread against the consuming loop (controlled executor, queue and futures); TLC validates '
    'C16_Sequence, C16_ErrorAfterN, C16_ForeignException, C16_LoopNotBlocked (ticker beats in virtual time) and C16_NoThreadLeft.')
CHECKS['C17'] = comp('CrossLoopContract.tla', '1..3 caller threads with their own loops target one loop that is idle / run by loop_in_thread / closed / their own, with coroutines, '
    'tasks and futures that return, raise or sleep, under seeded line-level schedules (controlled Lock, executor, futures, sleep(0) spin); TLC validates C17_Transparent, C17_OnTarget, '
    'C17_ClosedRaises, C17_OneRunner, C17_StartSync/StopSync and C17_Completes. Two genuine defects with one root cause (is_running() does not tell a temporary runner from the permanent one: concurrent ensure_aw on an idle loop strands a call; loop_in_thread during a temporary run returns early) are listed known findings.')
def pure(spec, text):
    d = comp(spec, text, 'function transcribed into TLA+ (' + spec + '); TLC enumerates the cases, the real function is executed on each, TLC validates the recorded results against the same specification')
    return d
CHECKS['C18'] = pure('SplitContract.tla / SplitGen.tla', 'Exhaustive within bounds: every source of length 0..3 (quick) / 0..4 (thorough) over two values, every boolean-iterable condition '
    '(shorter, equal, longer; truthy/falsy non-bools), stateless and stateful callables, every order of next() calls on the two iterators incl. abandoning one, for list / iterator / '
    'generator sources, plus random configurations up to length 7; clauses C18_Partition, C18_SourceOnce, C18_PredicateOnce, C18_Lazy, C18_Exhaust.')
CHECKS['C20'] = pure('GatherContract.tla / GatherGen.tla', 'Exhaustive within bounds: every list of 0..2 (quick) / 0..3 (thorough) awaitables with delay in {0,1,2} and outcome over the '
    'exception hierarchy, every `only`, both functions, plus random lists of up to 5, run in virtual time; clauses C20_AllRun, C20_ExactlyFiltered, C20_InputOrder, C20_RaiseFirst, C20_NoneWhenEmpty.')
CHECKS['C19'] = pure('ParseContract.tla / ParseGen.tla', 'Exhaustive for item lists of length 0..1 over 21 string fragment classes and 3 non-string objects in all shapes, parse_keys on/off, '
    'default and raising parser, separators of length 1..2; random item lists of length 2..4; the actual result is abstracted back to fragment classes through a hand-written table (independent of '
    'ast.literal_eval) and compared by TLC with the transcribed rules (split at first separator, later pair wins, ValueError without separator, non-strings untouched); a trip-wire object counts '
    'any evaluation. The universal no-evaluation claim is checked over this fragment grammar only.')
CHECKS['C14'] = pure('KeysContract.tla / KeysGen.tla', 'Exhaustive within bounds: all pairs of call signatures (positional tuples 0..2, keyword lists of 0..2 names in every order, two '
    'equality classes concretised as equal-but-distinct objects) run sequentially and concurrently, and all call/evict sequences of length 1..4 over 3 keys on a caller-supplied MutableMapping '
    'and bounded LRU(1)/LRU(2) (LRU semantics modelled in the spec); random longer signatures; clauses C14_Shares, C14_NeverCross, C14_ValueOfKey, C14_OneRecompute.')
CHECKS['C15'] = comp('BatcherContract / BufferContract / KeysContract instantiated with the option values given + FormsTrace.tla', 'The same timed programs are run on the '
    'decorator-with-options form, the direct form and the class for every option (one at a time and jointly); TLC validates each trace against the component contract instantiated with the values '
    'given (C15_OptionEffective_*) and checks the traces of the forms equal event for event (C15_FormsEquivalent); one decorated batcher is driven from 1..3 loops successively and concurrently and '
    'each per-loop projection must satisfy BatcherContract on its own (C15_PerLoopIndependent_*).')
for _p, _m in MODELS.items():
    if _p in CHECKS:
        CHECKS[_p]['text'] += ' Model level: ' + _m + '.'
        CHECKS[_p]['technique'] = 'TLA+ model checked exhaustively by TLC (' + _m.split(' (')[0] + '); ' + CHECKS[_p]['technique']
PENDING_REASON = 'check not built yet in this session (planned: see DESIGN.md §5); not a claim that the technique cannot apply'
PENDING = {('C%02d' % i): PENDING_REASON for i in range(1, 21)}
ENGINES = [
 {'name': 'tlc+runtime', 'path': 'harness/', 'serves_properties': sorted(CHECKS),
  'kind_free_text': 'TLC model checking of TLA+ specs in specs/, plus a deterministic runtime (harness/rt.py) executing the real code; '
                    'recorded traces are validated by TLC against the TLA+ contract monitors (batch trace validation)'},
]
NOTES = ('Exit codes: 0 property held on everything explored; 1 + VIOLATION line; 2 machinery failure (never a verdict). '
         'Genuine defects repaired by fix: commits are listed in known_findings.json.')
