TRUST = ('CPython 3.12 asyncio/threading/concurrent.futures internals are atomic between aiuti source lines; '
         'harness-controlled primitives (Lock/RLock, executor, futures, queue, sleep, virtual-time loop) are faithful; '
         'TLC 1.8; the contract monitor (TLA+) is a literal reading of the property statement')

def cache(text):
    return {'engine': 'tlc+runtime', 'design_ref': 'DESIGN.md §5', 'technique':
            'TLA+ model (Cache.tla) checked exhaustively by TLC with the contract monitor composed in; '
            'executions of the real code under a deterministic line-level scheduler validated by TLC against CacheContract.tla',
            'text': text, 'note': TRUST}

CHECKS = {
 'C01': cache('Exhaustive TLC exploration of the implementation-shaped cache model (3 loops x 1 caller, 2 x 2, full loop life cycles) '
              'shows the design is single-flight; thousands of executions of the real code under seeded random/PCT line-level schedules '
              'and loop life-cycle histories are validated by TLC against the contract monitor (C01_SingleFlight, C01_OnceDone, C01_OneResult). '
              'Witness configurations prove the interesting windows (take-over, cross-loop wait) are inside the bounds.'),
 'C05': cache('TLC checks termination of the cache model under weak fairness without the 60 s safety net, and safety with it; executions '
              'of the real code in virtual time are validated against C05_Terminates and C05_NoIdleWait (the clock may only advance while a '
              'computation for the key is live or within 60 s of the death of a loop the caller depended on).'),
 'C06': cache('TLC checks in the model that every call ends with its own outcome under cancellation, failures and loop shutdown; executions '
              'of the real code with cancels/time-outs/failures at grid instants are validated against C06_ForeignOutcome_* / C06_WrongValue.'),
}
PENDING_REASON = 'check not built yet in this session (planned: see DESIGN.md §5); not a claim that the technique cannot apply'
PENDING = {('C%02d' % i): PENDING_REASON for i in range(1, 21)}
ENGINES = [
 {'name': 'tlc+runtime', 'path': 'harness/', 'serves_properties': sorted(CHECKS),
  'kind_free_text': 'TLC model checking of TLA+ specs in specs/, plus a deterministic runtime (harness/rt.py) executing the real code; '
                    'recorded traces are validated by TLC against the TLA+ contract monitors (batch trace validation)'},
]
NOTES = ('Exit codes: 0 property held on everything explored; 1 + VIOLATION line; 2 machinery failure (never a verdict). '
         'Genuine defects repaired by fix: commits are listed in known_findings.json.')
