#!/bin/bash
# validate a round of sub-agent changes and import the valid ones: tools/seedimport.sh <round> [ids...]
cd "$(dirname "$0")/.."
R=$1; shift; ids="$@"; [ -z "$ids" ] && ids=$(ls /tmp/seed$R | grep '^C')
for p in $ids; do
  for md in /tmp/seed$R/$p/m*; do
    [ -f $md/patch.diff ] || continue
    m=$(basename $md); dest=seeded/$p-r${R}$m
    [ -d $dest ] && continue
    WT_ROOT=/tmp/wt$R SEED_ROOT=/tmp/seed$R tools/seedcheck.py $p $m | tail -1
    if /venv/bin/python -c "import json,sys; sys.exit(0 if json.load(open('$md/validation.json'))['valid'] else 1)"; then
      mkdir -p $dest; cp $md/patch.diff $md/demo.py $dest/
      /venv/bin/python - <<PY
import json
m=json.load(open('$md/meta.json')); v=json.load(open('$md/validation.json'))
m['round']=$R; m['validated']={k:v.get(k) for k in ('head','applies','tests_ok','demo_without','demo_with')}
json.dump(m, open('$dest/meta.json','w'), indent=1)
PY
    fi
  done
done
