#!/venv/bin/python
"""Run the quick check of each seeded change's property against a scratch copy of /repo's
working tree with the change applied (AIUTI_SRC), in parallel; prints a detection table and
writes seeded/RESULTS.json.  Usage: seedrun.py [name-filter...]"""
import json, os, subprocess, sys, shutil, tempfile, time
from concurrent.futures import ThreadPoolExecutor
HERE = os.path.dirname(os.path.dirname(os.path.abspath(__file__)))
SEEDED = os.path.join(HERE, 'seeded')
flt = sys.argv[1:]
names = sorted(n for n in os.listdir(SEEDED) if os.path.isdir(os.path.join(SEEDED, n)) and (not flt or any(f in n for f in flt)))
claimed = {c['property_id'] for c in json.load(open(os.path.join(HERE, 'MANIFEST.json')))['checks']}

def one(name):
    meta = json.load(open(os.path.join(SEEDED, name, 'meta.json')))
    prop = meta['property']
    props = [prop] + [p for p in meta.get('also_check', [])]
    d = tempfile.mkdtemp(prefix='seedrun-')
    try:
        subprocess.check_call(['git', '-C', '/repo', 'worktree', 'add', '-q', '--detach', d + '/src', 'HEAD'])
        a = subprocess.run(['git', '-C', d + '/src', 'apply', os.path.join(SEEDED, name, 'patch.diff')], capture_output=True, text=True)
        if a.returncode:
            return name, {'error': 'patch does not apply: ' + a.stderr[:200]}
        res = {}
        for p in props:
            if p not in claimed:
                res[p] = {'rc': None, 'note': 'not claimed yet'}
                continue
            env = dict(os.environ, AIUTI_SRC=d + '/src', VERIF_EVIDENCE_DIR=d + '/ev', VERIF_REPLAYS_DIR=d + '/rp',
                       VERIF_TIER=os.environ.get('SEED_TIER', 'quick'))
            t0 = time.time()
            r = subprocess.run([os.path.join(HERE, 'check'), p], env=env, capture_output=True, text=True)
            v = [l for l in r.stdout.splitlines() if l.startswith('VIOLATION')]
            res[p] = {'rc': r.returncode, 'seconds': round(time.time() - t0), 'violations': len(v),
                      'first': (v[0].split('clause=')[1] if v else (r.stdout + r.stderr)[-300:] if r.returncode else '')}
        return name, res
    finally:
        subprocess.call(['git', '-C', '/repo', 'worktree', 'remove', '--force', d + '/src'])
        shutil.rmtree(d, ignore_errors=True)

out = {}
with ThreadPoolExecutor(int(os.environ.get('SEED_JOBS', '3'))) as ex:
    for name, res in ex.map(one, names):
        out[name] = res
        print(name, json.dumps(res))
        sys.stdout.flush()
path = os.path.join(SEEDED, 'RESULTS.json')
old = json.load(open(path)) if os.path.exists(path) else {}
old.update(out)
json.dump(old, open(path, 'w'), indent=1, sort_keys=True)
det = sum(1 for r in out.values() if any(isinstance(x, dict) and x.get('rc') == 1 for x in r.values()))
print('detected %d / %d' % (det, len(out)))
