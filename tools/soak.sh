#!/bin/bash
# soak: run every quick check with several seeds; report any non-zero exit (false alarm hunting)
cd "$(dirname "$0")/.."
export VERIF_EVIDENCE_DIR=$(mktemp -d /tmp/soak-ev-XXXX) VERIF_REPLAYS_DIR=$(pwd)/soak_replays
mkdir -p $VERIF_REPLAYS_DIR
seeds="${SEEDS:-2 3 4 5 6 7 8 9}"
ids="${IDS:-C01 C02 C03 C04 C05 C06 C07 C08 C09 C10 C11 C12 C13 C14 C15 C16 C17 C18 C19 C20}"
for s in $seeds; do for p in $ids; do
  out=$(VERIF_SEED=$s ./check $p --tier ${TIER:-quick} 2>&1); rc=$?
  echo "seed=$s $p rc=$rc $(echo "$out" | grep -m2 -E 'VIOLATION|MACHINERY|Traceback|NOTE' | cut -c1-200 | tr '\n' ' ')"
done; done
rm -rf $VERIF_EVIDENCE_DIR
