#!/venv/bin/python
"""Prepare a round of seeding tasks for fresh sub-agents: for every property a scratch worktree of /repo
(outside /repo and /verif) and a self-contained TASK.md containing only the property text and the one-line
summaries of earlier seeded changes (so that the new ones differ).  usage: mkseedtasks.py <round> [ids...]"""
import json, os, subprocess, sys
rnd = sys.argv[1]
only = sys.argv[2:]
HERE = os.path.dirname(os.path.dirname(os.path.abspath(__file__)))
WT, OUT = '/tmp/wt%s' % rnd, '/tmp/seed%s' % rnd
props = [json.loads(l) for l in open(os.path.join(HERE, 'properties.jsonl')) if l.strip()]
template = open('/tmp/seed2/C01/TASK.md').read() if False else None
for p in props:
    pid = p['id']
    if only and pid not in only:
        continue
    wt, out = os.path.join(WT, pid), os.path.join(OUT, pid)
    os.makedirs(out, exist_ok=True)
    if not os.path.exists(wt):
        os.makedirs(WT, exist_ok=True)
        subprocess.check_call(['git', '-C', '/repo', 'worktree', 'add', '-q', '--detach', wt, 'HEAD'])
    earlier = []
    for n in sorted(os.listdir(os.path.join(HERE, 'seeded'))):
        mp = os.path.join(HERE, 'seeded', n, 'meta.json')
        if n.startswith(pid + '-') and os.path.exists(mp):
            m = json.load(open(mp))
            earlier.append('- ' + (m.get('summary') or m.get('description') or '').strip())
    text = p.get('title', '') + '\n\nStatement: ' + p.get('statement', '') + '\n\nQuantified over (' + ', '.join(p['quantifier']['over']) + '): ' + p['quantifier']['text']
    open(os.path.join(out, 'PROPERTY.txt'), 'w').write(pid + ': ' + text + '\n')
    task = f"""You are helping evaluate a verification effort for the Python library aiudirog/Aiuti (asyncio helpers, a thread-safe file lock, small itertools/parsing helpers). Your job: write realistic BUGGY CHANGES ("seeded defects") to the library that break ONE specific semantic property, yet still compile and still pass the library's existing test suite.

Your scratch git worktree of the library (work ONLY here, never touch /repo or /verif, never read anything under /verif): {wt}
Output directory: {out}
Python: /venv/bin/python (3.12; has pytest, pytest-asyncio, lru-dict). No network.

THE PROPERTY (also in {out}/PROPERTY.txt):
---
{pid}: {text}
---

What to produce: TWO independent changes (at least one), each in its own sub-directory {out}/m1, m2 containing:
  - patch.diff : `git diff` of the change to files under aiuti/ (relative to the worktree's HEAD; must apply with `git apply` in a clean checkout). Source-only edits under aiuti/; do not edit tests.
  - demo.py : a small standalone program (run as `PYTHONPATH=<tree> /venv/bin/python demo.py`) that demonstrates the property violation: it must exit non-zero (or fail an assertion) WITH the change applied and exit 0 WITHOUT it (on the unchanged worktree HEAD). It should be deterministic or very nearly so (use barriers/events/hooks/monkeypatching of timing rather than luck; it may loop a bounded number of times). It must finish in < 60 s and must clean up any temporary files/directories it creates.
  - meta.json : {{"property": "{pid}", "summary": "<one line what was changed>", "needs": "<what specific interleaving / fault / sequence / input / configuration is needed for the violation to manifest>", "ran": ["<commands you ran and their outcome>"]}}

Requirements for each change:
  1. It must be the kind of mistake a maintainer could plausibly make in a refactor / "optimisation" / "cleanup" (e.g. moving a statement out of a lock, dropping a re-check, off-by-one at a boundary, wrong variable, swallowing / mis-ordering, forgetting a cleanup on one path) - not sabotage like `raise` at the top of the function.
  2. It must still import/compile, and the existing test suite must still pass with it. Run from the worktree: `cd {wt} && /venv/bin/python -m pytest -ra -q -p no:cacheprovider --timeout=900 --continue-on-collection-errors` (takes ~25 s, longer when the machine is busy). On the UNCHANGED tree exactly two doctests fail because there is no network (aiuti.asyncio.to_async_iter and aiuti.asyncio.to_sync_iter); the other 42 pass. With your change the same 42 must still pass (run it twice to check it is not flaky).
  3. IMPORTANT: prefer changes that need something SPECIFIC to manifest - a particular thread/task interleaving, a fault or crash at a particular point, a multi-step sequence of operations, an unusual input or configuration, or two cooperating sites that each look fine alone - NOT ones that ordinary use would expose at once.
  4. The violation must be a violation of the property AS STATED above (read the statement and its quantifier carefully: the triggering input / schedule / history must lie INSIDE what the property quantifies over), observable through the public API / observable effects, and must NOT already occur on the unchanged tree (your demo passing on the unchanged tree shows that). Note the unchanged library may have pre-existing bugs; stay away from behaviour that is already broken without your change.
  5. Keep each patch small (a few lines).

Process: read the relevant source in the worktree (aiuti/asyncio.py, aiuti/filelock.py, aiuti/itertools.py, aiuti/parsing.py and tests/), design a change, apply it in the worktree, run the test suite, write and run the demo with and without the change, save patch.diff via `git diff > {out}/mN/patch.diff`, then `git checkout -- .` to restore before the next change. When finished, leave the worktree clean (`git status` clean) and reply with a short summary listing each mN: what it changes, what it needs to manifest, and the exact commands/results confirming (a) tests pass with it, (b) demo fails with it, (c) demo passes without it. If you cannot find any valid change, say so and explain why.

IMPORTANT additional rules:
- NEVER use `git stash` (it is shared between worktrees). Switch with `git diff > patch.diff; git checkout -- aiuti` and `git apply patch.diff`.
- The worktree is at the CURRENT head of the repository, which already contains several bug fixes; read the current code.
- Earlier rounds already produced the following changes for this property. Do NOT repeat them or trivial variants; look for a DIFFERENT mechanism, code path or clause of the property (subtle ones: off-by-one at a boundary, ordering of two statements, a rarely taken branch, interaction of two features, an exception path, a configuration corner, a second object / second key / second loop, state left behind by an earlier operation):
""" + '\n'.join(earlier) + '\n'
    open(os.path.join(out, 'TASK.md'), 'w').write(task)
    print(pid, len(earlier), 'earlier')
