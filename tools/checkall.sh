#!/bin/bash
# run every claimed quick check, validate evidence; usage: tools/checkall.sh [ids...]
cd "$(dirname "$0")/.."
ids="$@"; [ -z "$ids" ] && ids=$(/venv/bin/python -c "import json;print(' '.join(c['property_id'] for c in json.load(open('MANIFEST.json'))['checks']))")
for p in $ids; do
  s=$(date +%s); out=$(./check $p --tier ${TIER:-quick} 2>&1); rc=$?; e=$(( $(date +%s) - s ))
  v=$(python3-vt -c "
import json,jsonschema,sys
try:
    jsonschema.validate(json.load(open('evidence/$p.json')), json.load(open('/root/.vp/EVIDENCE.schema.json'))); print('evidence-ok')
except Exception as ex: print('EVIDENCE-BAD', str(ex).splitlines()[0])")
  echo "$p rc=$rc ${e}s $v $(echo "$out" | grep -c VIOLATION) violations $(echo "$out" | grep -m1 -E 'MACHINERY|Traceback|Error|NOTE' )"
done
