#!/venv/bin/python
"""Validate a sub-agent's seeded change in a scratch worktree of /repo at its current HEAD:
patch applies, baseline suite still passes with it, demo fails with it and passes without.
Usage: seedcheck.py <Cxx> <mN> -> writes /tmp/seed/<Cxx>/<mN>/validation.json"""
import json, os, subprocess, sys, re
pid, m = sys.argv[1], sys.argv[2]
wt = '%s/%s' % (os.environ.get('WT_ROOT', '/tmp/wt'), pid)
sd = '%s/%s/%s' % (os.environ.get('SEED_ROOT', '/tmp/seed'), pid, m)
def sh(cmd, **kw):
    return subprocess.run(cmd, shell=True, text=True, stdout=subprocess.PIPE, stderr=subprocess.STDOUT, **kw)
res = {'property': pid, 'mutant': m}
sh('git -C %s reset -q --hard && git -C %s clean -fdq && git -C %s checkout -q --detach main' % (wt, wt, wt))
res['head'] = sh('git -C %s rev-parse --short HEAD' % wt).stdout.strip()
def demo():
    p = sh('cd %s && PYTHONPATH=%s timeout 120 /venv/bin/python demo.py' % (sd, wt))
    return p.returncode, p.stdout[-600:]
rc0, out0 = demo()
res['demo_without'] = rc0
a = sh('git -C %s apply %s/patch.diff' % (wt, sd))
if a.returncode != 0:
    a = sh('git -C %s apply --recount -C1 %s/patch.diff' % (wt, sd))
res['applies'] = a.returncode == 0
res['apply_out'] = a.stdout[-400:]
if res['applies']:
    rc1, out1 = demo()
    res['demo_with'] = rc1
    res['demo_with_out'] = out1
    t = sh('cd %s && /venv/bin/python -m pytest -q -p no:cacheprovider --timeout=900 --continue-on-collection-errors 2>&1 | tail -5' % wt)
    mm = re.search(r'(\d+) failed, (\d+) passed', t.stdout)
    res['tests'] = t.stdout[-300:]
    res['tests_ok'] = bool(mm and mm.group(2) == '42' and 'to_async_iter' in t.stdout and 'to_sync_iter' in t.stdout and mm.group(1) == '2')
    sh('git -C %s diff > %s/patch.rebased.diff' % (wt, sd))
sh('git -C %s reset -q --hard ; git -C %s clean -fdq' % (wt, wt))
res['valid'] = bool(res.get('applies') and res.get('tests_ok') and res['demo_without'] == 0 and res.get('demo_with', 0) != 0)
json.dump(res, open(sd + '/validation.json', 'w'), indent=1)
print(pid, m, 'VALID' if res['valid'] else 'INVALID', {k: res.get(k) for k in ('applies', 'tests_ok', 'demo_without', 'demo_with')})
