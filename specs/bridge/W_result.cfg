SPECIFICATION Spec
CONSTANTS
 N = 2
 FailAt <- Minus1
 AwaitFuture = FALSE
 JoinPool = TRUE
INVARIANT ErrorAfterN
