---------------------------- MODULE BridgeContract ----------------------------
(***************************************************************************)
(* C16: to_async_iter / to_sync_iter preserve the sequence, propagate the  *)
(* source's own exception after the elements produced before it, do not    *)
(* block the consuming loop, and leave no helper thread behind.            *)
(* Events: Config{which,n,fail_at,srckind} IterStart Got{j,same}           *)
(*  GotExc{same,exctype} Stop Beat IterEnd Threads{alive} End{status}      *)
(***************************************************************************)
EXTENDS Util
Props == {"C16"}
MInit == [which |-> "", n |-> 0, failat |-> -1, got |-> 0, ended |-> "", t0 |-> 0, t1 |-> 0, beats |-> 0,
          started |-> FALSE, finished |-> FALSE, bad |-> [p \in Props |-> Ok]]
Expect(m) == IF m.failat >= 0 THEN Min(m.failat, m.n) ELSE m.n
MStep(m, e, idx) ==
  CASE e.e = "Config" -> [m EXCEPT !.which = e.which, !.n = e.n, !.failat = e.fail_at]
    [] e.e = "IterStart" -> [m EXCEPT !.t0 = e.t, !.started = TRUE]
    [] e.e = "Got" ->
        [m EXCEPT !.got = @ + 1,
                  !.bad = IF m.ended # "" \/ e.j # m.got \/ ~e.same \/ e.j >= Expect(m)
                          THEN Flag(@, "C16", "C16_Sequence", idx) ELSE @]
    [] e.e = "Stop" ->
        [m EXCEPT !.ended = "stop",
                  !.bad = IF m.failat >= 0 THEN Flag(@, "C16", "C16_ErrorSwallowed", idx)
                          ELSE IF m.got # m.n THEN Flag(@, "C16", "C16_Sequence", idx) ELSE @]
    [] e.e = "GotExc" ->
        [m EXCEPT !.ended = "exc",
                  !.bad = IF m.failat < 0 \/ ~e.same THEN Flag(@, "C16", "C16_ForeignException_" \o e.exctype, idx)
                          ELSE IF m.got # Expect(m) THEN Flag(@, "C16", "C16_ErrorAfterN", idx) ELSE @]
    \* a second, independent bridge used while this one is in mid-iteration delivers its own elements
    [] e.e = "Twin" -> [m EXCEPT !.bad = IF ~e.ok THEN Flag(@, "C16", "C16_Interference", idx) ELSE @]
    [] e.e = "Beat" -> [m EXCEPT !.beats = @ + 1]
    [] e.e = "IterEnd" ->
        LET dur == e.t - m.t0
            want == (dur \div 1000) - 1
        IN [m EXCEPT !.t1 = e.t, !.finished = TRUE,
                     !.bad = IF m.which = "to_async" /\ m.beats < want
                             THEN Flag(@, "C16", "C16_LoopNotBlocked", idx) ELSE @]
    [] e.e = "Threads" ->
        [m EXCEPT !.bad = IF e.alive # 0 THEN Flag(@, "C16", "C16_NoThreadLeft", idx) ELSE @]
    [] e.e = "End" ->
        [m EXCEPT !.bad = IF e.status # "ok" \/ ~m.finished THEN Flag(@, "C16", "C16_Hang", idx) ELSE @]
    [] OTHER -> m
=============================================================================
