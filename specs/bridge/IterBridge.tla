------------------------------ MODULE IterBridge ------------------------------
(***************************************************************************)
(* Implementation-shaped specification of aiuti.asyncio.to_async_iter (a   *)
(* synchronous iterator drained by a worker thread of a one-shot pool into *)
(* an asyncio.Queue consumed on the loop) and to_sync_iter (the mirror     *)
(* image: an async iterable drained by a loop running in a worker thread   *)
(* into a queue.Queue consumed by the calling thread).  Both have the same *)
(* shape: producer P and consumer C, a FIFO channel, a sentinel put in a   *)
(* finally-block, and the producer's future that re-raises its exception.  *)
(*                                                                         *)
(*   producer:  for x in source: put(x)      finally: put(DONE)            *)
(*              [executor] set_result / set_exception on the future        *)
(*   consumer:  while (i := get()) is not DONE: yield i                    *)
(*              await future  /  future.result()     (bubble errors)       *)
(*              leave the with-block: pool.shutdown(wait=True)             *)
(*                                                                         *)
(* AwaitFuture = FALSE models the seeded change "future.result() instead   *)
(* of await future" (the consumer does not wait for the executor to        *)
(* complete the future); JoinPool = FALSE models "pool not shut down on    *)
(* the error path".  Both are used by witness configurations only.         *)
(***************************************************************************)
EXTENDS Integers, Sequences, FiniteSets, TLC

CONSTANTS N,          \* length of the source
          FailAt,     \* -1 = the source never fails, k = it raises when asked for element k+1 (0-based k)
          AwaitFuture, JoinPool

DONE == 0             \* the sentinel (elements are 1..N)

VARIABLES ppc,        \* producer: "iter" | "sentinel" | "complete" | "exit"
          pos,        \* elements produced so far
          chan,       \* the queue
          fut,        \* producer future: "pending" | "ok" | "exc"
          cpc,        \* consumer: "get" | "bubble" | "shutdown" | "done"
          got,        \* elements the consumer yielded
          outcome,    \* "none" | "stop" | "srcexc" | "foreign"
          worker      \* pool worker alive?

vars == <<ppc, pos, chan, fut, cpc, got, outcome, worker>>

Init == /\ ppc = "iter" /\ pos = 0 /\ chan = <<>> /\ fut = "pending"
        /\ cpc = "get" /\ got = <<>> /\ outcome = "none" /\ worker = TRUE

\* ---------------------------------------------------------------- producer (worker thread)
ProdNext ==      \* for x in iterable: put(x)
    /\ ppc = "iter"
    /\ IF FailAt = pos THEN ppc' = "sentinel_exc" /\ UNCHANGED <<pos, chan>>
       ELSE IF pos = N THEN ppc' = "sentinel_ok" /\ UNCHANGED <<pos, chan>>
       ELSE /\ pos' = pos + 1 /\ chan' = Append(chan, pos + 1) /\ UNCHANGED ppc
    /\ UNCHANGED <<fut, cpc, got, outcome, worker>>

ProdSentinel ==  \* finally: put(_DONE)
    /\ ppc \in {"sentinel_ok", "sentinel_exc"}
    /\ chan' = Append(chan, DONE)
    /\ ppc' = IF ppc = "sentinel_ok" THEN "complete_ok" ELSE "complete_exc"
    /\ UNCHANGED <<pos, fut, cpc, got, outcome, worker>>

ProdComplete ==  \* the executor completes the future *after* the function returned / raised
    /\ ppc \in {"complete_ok", "complete_exc"}
    /\ fut' = IF ppc = "complete_ok" THEN "ok" ELSE "exc"
    /\ ppc' = "idle"
    /\ UNCHANGED <<pos, chan, cpc, got, outcome, worker>>

WorkerExit ==    \* pool.shutdown(): the idle worker exits
    /\ ppc = "idle" /\ cpc \in {"joining", "done", "leaked"} /\ worker
    /\ cpc # "leaked"
    /\ worker' = FALSE
    /\ UNCHANGED <<ppc, pos, chan, fut, cpc, got, outcome>>

\* ---------------------------------------------------------------- consumer
ConsGet ==       \* while (i := await q.get()) is not _DONE: yield i
    /\ cpc = "get" /\ chan # <<>>
    /\ chan' = Tail(chan)
    /\ IF Head(chan) = DONE THEN cpc' = "bubble" /\ UNCHANGED got
       ELSE got' = Append(got, Head(chan)) /\ UNCHANGED cpc
    /\ UNCHANGED <<ppc, pos, fut, outcome, worker>>

ConsBubble ==    \* await future (waits for the executor) - or future.result() right away
    /\ cpc = "bubble"
    /\ IF AwaitFuture
       THEN /\ fut # "pending"
            /\ outcome' = IF fut = "ok" THEN "stop" ELSE "srcexc"
       ELSE outcome' = IF fut = "pending" THEN "foreign" ELSE IF fut = "ok" THEN "stop" ELSE "srcexc"
    /\ cpc' = IF JoinPool \/ outcome' = "stop" THEN "joining" ELSE "leaked"
    /\ UNCHANGED <<ppc, pos, chan, fut, got, worker>>

ConsJoined ==    \* leaving `with ThreadPoolExecutor(1) as pool`: shutdown(wait=True) returned
    /\ cpc = "joining" /\ ~worker
    /\ cpc' = "done"
    /\ UNCHANGED <<ppc, pos, chan, fut, got, outcome, worker>>

Finish == cpc \in {"done", "leaked"} /\ (cpc = "leaked" => ppc = "idle") /\ UNCHANGED vars
Next == ProdNext \/ ProdSentinel \/ ProdComplete \/ WorkerExit \/ ConsGet \/ ConsBubble \/ ConsJoined \/ Finish
Spec == Init /\ [][Next]_vars
FairSpec == Spec /\ WF_vars(Next)

\* ---------------------------------------------------------------- properties (C16)
Expect == IF FailAt >= 0 /\ FailAt < N THEN FailAt ELSE N
Prefix == /\ Len(got) <= Expect
          /\ \A i \in 1..Len(got) : got[i] = i
SentinelOnceAndLast == Cardinality({i \in 1..Len(chan) : chan[i] = DONE}) <= 1
                       /\ (\E i \in 1..Len(chan) : chan[i] = DONE) => chan[Len(chan)] = DONE
Sequence == outcome # "none" => Len(got) = Expect
ErrorAfterN == outcome # "none" => outcome = (IF FailAt >= 0 /\ FailAt <= N THEN "srcexc" ELSE "stop")
NoThreadLeft == cpc = "done" => ~worker
NeverLeaked == cpc # "leaked"
Terminates == <>[](cpc = "done")
=============================================================================
