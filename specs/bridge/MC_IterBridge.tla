---- MODULE MC_IterBridge ----
EXTENDS IterBridge
Minus1 == -1
====
