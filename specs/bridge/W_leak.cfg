SPECIFICATION Spec
CONSTANTS
 N = 2
 FailAt = 1
 AwaitFuture = TRUE
 JoinPool = FALSE
INVARIANT NeverLeaked
