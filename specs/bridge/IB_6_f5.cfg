SPECIFICATION FairSpec
CONSTANTS
 N = 6
 FailAt = 5
 AwaitFuture = TRUE
 JoinPool = TRUE
INVARIANT Prefix
INVARIANT SentinelOnceAndLast
INVARIANT Sequence
INVARIANT ErrorAfterN
INVARIANT NoThreadLeft
INVARIANT NeverLeaked
PROPERTY Terminates
