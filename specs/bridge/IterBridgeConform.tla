-------------------------- MODULE IterBridgeConform --------------------------
(***************************************************************************)
(* Implementation conformance (code -> spec) for to_async_iter /            *)
(* to_sync_iter: one recorded execution on the real code is accepted iff   *)
(* IterBridge.tla has a behaviour with the same observable points in the   *)
(* same order - the source hands out element j / raises / is exhausted (in *)
(* the producer's thread), the consumer receives element j, the iteration  *)
(* ends with StopIteration or the source's exception, the thread census    *)
(* after the iteration - with the sentinel, the executor completing the    *)
(* future, the bubble step, the pool shutdown and the worker's exit as     *)
(* silent steps in between, and whose projected state equals what the      *)
(* harness reads at every observable point: elements produced, elements    *)
(* received, whether the pool's worker thread is alive.                    *)
(***************************************************************************)
EXTENDS IterBridge, Json, IOUtils

T == JsonDeserialize(IOEnv.TRACE_FILE)

VARIABLES l, sil
cvars == <<vars, l, sil>>

CInit == Init /\ l = 1 /\ sil = 0 /\ TLCSet(1, 0)

Same == UNCHANGED vars
Match(e) ==
    CASE e.e = "Produce" -> ProdNext /\ pos = e.j /\ pos' = e.j + 1
      [] e.e = "SrcFail" -> ProdNext /\ pos = e.j /\ ppc' = "sentinel_exc"
      [] e.e = "SrcEnd"  -> ProdNext /\ pos = e.j /\ ppc' = "sentinel_ok"
      [] e.e = "Got"     -> ConsGet /\ Len(got) = e.j /\ Len(got') = e.j + 1
      \* the consumer sees the end of the iteration only after the generator finished: bubble + pool shutdown are over
      [] e.e = "Stop"    -> cpc = "done" /\ outcome = "stop" /\ Same
      [] e.e = "GotExc"  -> cpc = "done" /\ outcome = "srcexc" /\ e.exctype = "SrcError" /\ Same
      [] e.e = "Threads" -> cpc = "done" /\ Same
      [] OTHER -> FALSE

Consume == /\ l <= Len(T)
           /\ Match(T[l])
           /\ worker' = (T[l].alive > 0)
           /\ l' = l + 1 /\ sil' = 0
Internal == \/ ProdSentinel \/ ProdComplete \/ WorkerExit \/ ConsBubble \/ ConsJoined
            \/ (ConsGet /\ got' = got)                \* the sentinel is taken from the queue
Silent == /\ l <= Len(T)
          /\ sil < 12
          /\ Internal
          /\ l' = l /\ sil' = sil + 1
CNext == Consume \/ Silent
Reached == IF l > TLCGet(1) THEN TLCSet(1, l) /\ PrintT(<<"REACHED", 1, l, Len(T) + 1>>) ELSE TRUE
NotYetAccepted == TLCGet(1) <= Len(T)
=============================================================================
