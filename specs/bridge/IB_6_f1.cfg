SPECIFICATION FairSpec
CONSTANTS
 N = 6
 FailAt = 1
 AwaitFuture = TRUE
 JoinPool = TRUE
INVARIANT Prefix
INVARIANT SentinelOnceAndLast
INVARIANT Sequence
INVARIANT ErrorAfterN
INVARIANT NoThreadLeft
INVARIANT NeverLeaked
PROPERTY Terminates
