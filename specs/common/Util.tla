------------------------------- MODULE Util -------------------------------
(* Small helpers shared by the contract monitors. *)
EXTENDS Integers, Sequences, FiniteSets, TLC

Get(f, k, d) == IF k \in DOMAIN f THEN f[k] ELSE d
Put(f, k, v) == [x \in (DOMAIN f) \cup {k} |-> IF x = k THEN v ELSE f[x]]
Drop(f, k)   == [x \in (DOMAIN f) \ {k} |-> f[x]]
EmptyFn      == [x \in {} |-> 0]
Has(e, fld)  == fld \in DOMAIN e

\* one verdict slot per property: the first violated clause wins, later events are still consumed
Flag(bad, p, clause, idx) ==
    IF bad[p][1] = "ok" THEN [bad EXCEPT ![p] = <<clause, idx>>] ELSE bad

SeqToSet(s) == {s[i] : i \in 1..Len(s)}
Max(a, b) == IF a >= b THEN a ELSE b
Min(a, b) == IF a <= b THEN a ELSE b
Ok == <<"ok", 0>>
=============================================================================
