---------------------------- MODULE BatcherContract ----------------------------
(***************************************************************************)
(* Observable contract of AsyncBackgroundBatcher (one event loop):         *)
(*  C04 each caller gets its own outcome and is always answered            *)
(*  C09 cancelling one caller never disturbs the others (the same clauses, *)
(*      attributed to C09 once a Cancel event has occurred)                *)
(*  C10 batch size / concurrency / FIFO / sharing / deadline               *)
(*  C11 one computation per key per retention window                       *)
(* The monitor keeps the *expected* request structure: a call either joins *)
(* the current request of its key (pending, or completed less than         *)
(* retention_timeout ago) or opens a new request that is appended to the   *)
(* expected FIFO.  Exact ties with a timer edge are not judged.            *)
(* Events: Config{maxb,maxc,bt,rt} Call{i,key,loop,tmo} Cancel{i}          *)
(*  CallEnd{i,kind,tag,exctype} BatchStart{b,items,loop} Yield{b,key,tag,  *)
(*  kind} BatchEnd{b,how} SetMax{n} Quiescent End{status}                  *)
(*  tag = <<batch, key, serial>>                                           *)
(***************************************************************************)
EXTENDS Util

Props == {"C04", "C09", "C10", "C11"}

MInit == [
    maxb |-> 256, maxc |-> 5, bt |-> 50, rt |-> 0,
    call   |-> EmptyFn,   \* i -> [key, t, tmo, req, cancelled]
    pendc  |-> {},
    reqs   |-> EmptyFn,   \* r -> [key, owner, t, batch, state, tdone]
    curreq |-> EmptyFn,   \* key -> r
    fifo   |-> <<>>,      \* requests not yet handed to the batch function, in arrival order
    nreq   |-> 0,
    batch  |-> EmptyFn,   \* b -> [items, reqs, t, how, first, cap]
    open   |-> {},
    lastb  |-> 0,         \* the previously started batch
    curmax |-> 256, maxseen |-> 256, capmin |-> 256,
    maxlog |-> <<>>,      \* every value of max_batch_size with the time from which it is in force
    busyFrom |-> -1, busyPrev |-> -1, freedAt |-> -1,
    anyCancel |-> FALSE,
    fuzzy  |-> FALSE,     \* an arrival coincided with a retention / batch timer edge: order not judged
    bad    |-> [p \in Props |-> Ok]]

P(m) == IF m.anyCancel THEN "C09" ELSE "C04"
KeysOf(m, rs) == [j \in 1..Len(rs) |-> m.reqs[rs[j]].key]
Count(s, x) == Cardinality({j \in 1..Len(s) : s[j] = x})
Prefix(s, n) == SubSeq(s, 1, Min(n, Len(s)))

\* a request completes when the batch function yields its key (first yield) or, failing that, when
\* the batch ends; it is remembered for retention_timeout after that
Joins(m, e) ==
    /\ e.key \in DOMAIN m.curreq
    /\ LET r == m.reqs[m.curreq[e.key]] IN
         \/ r.state = "pending"
         \/ r.state = "done" /\ e.t < r.tdone + m.rt
\* an arrival exactly at the edge of the window is not judged - except that with retention 0 a call made
\* after a caller of the request has already been answered is certainly "after" (program order)
EdgeTie(m, e) ==
    /\ e.key \in DOMAIN m.curreq
    /\ LET r == m.reqs[m.curreq[e.key]] IN
         r.state = "done" /\ e.t = r.tdone + m.rt /\ ~(m.rt = 0 /\ r.answered)

Complete(m, rs, t) ==
    [m EXCEPT !.reqs = [r \in DOMAIN @ |-> IF r \in rs /\ @[r].state = "pending"
                                            THEN [@[r] EXCEPT !.state = "done", !.tdone = t] ELSE @[r]]]

OnCall(m, e, idx) ==
    IF Joins(m, e)
    THEN [m EXCEPT !.call = Put(@, e.i, [key |-> e.key, t |-> e.t, tmo |-> e.tmo, req |-> m.curreq[e.key],
                                         cancelled |-> FALSE]),
                   !.pendc = @ \cup {e.i}]
    ELSE LET r == m.nreq + 1
             lastT == IF m.nreq = 0 THEN -1000000 ELSE m.reqs[m.nreq].t
             tie == EdgeTie(m, e) \/ (e.t - lastT = m.bt)
         IN [m EXCEPT !.call = Put(@, e.i, [key |-> e.key, t |-> e.t, tmo |-> e.tmo, req |-> r, cancelled |-> FALSE]),
                      !.pendc = @ \cup {e.i},
                      !.reqs = Put(@, r, [key |-> e.key, owner |-> e.i, t |-> e.t, batch |-> 0,
                                          state |-> "pending", tdone |-> 0, answered |-> FALSE]),
                      !.curreq = Put(@, e.key, r),
                      !.fifo = Append(@, r),
                      !.nreq = r,
                      !.fuzzy = @ \/ tie]

OnBatchStart(m, e, idx) ==
    LET n == Len(e.items)
        exp == Prefix(m.fifo, n)
        expKeys == KeysOf(m, exp)
        fifoKeys == KeysOf(m, m.fifo)
        \* C10_Size: the values of max_batch_size that were in force while the items of this batch arrived
        \* (assembly may precede the start when all slots are busy, so the arrival interval is what counts)
        a1 == IF n > 0 /\ Len(exp) >= n THEN m.reqs[exp[1]].t ELSE e.t
        an == IF n > 0 /\ Len(exp) >= n THEN m.reqs[exp[n]].t ELSE e.t
        inner == {k \in 1..Len(m.maxlog) : m.maxlog[k][1] > a1 /\ m.maxlog[k][1] <= an}
        before == {k \in 1..Len(m.maxlog) : m.maxlog[k][1] <= a1}
        atStart == IF before = {} THEN m.maxb ELSE m.maxlog[CHOOSE k \in before : \A j \in before : j <= k][2]
        widest == IF inner = {} THEN atStart
                  ELSE LET vals == {m.maxlog[k][2] : k \in inner} \cup {atStart}
                       IN CHOOSE v \in vals : \A w \in vals : w <= v
        lowest == IF inner = {} THEN atStart
                  ELSE LET vals == {m.maxlog[k][2] : k \in inner} \cup {atStart}
                       IN CHOOSE v \in vals : \A w \in vals : v <= w
        \* lowered while the batch was being filled: items that joined afterwards are bound by the new value
        \* (+1: a q.get() already being awaited when the value changed may still deliver its item; the
        \*  statement does not say which value applies to a batch under assembly, so that is not judged)
        lastIn == IF inner = {} THEN 0 ELSE CHOOSE k \in inner : \A j \in inner : j <= k
        joinedBefore == IF lastIn = 0 THEN n
                        ELSE Cardinality({j \in 1..n : m.reqs[exp[j]].t <= m.maxlog[lastIn][1]})
        bound == IF lastIn = 0 THEN widest ELSE Min(widest, Max(joinedBefore + 1, Max(m.maxlog[lastIn][2], 1)))
        b0 == IF n < 1 \/ (~m.fuzzy /\ e.items = expKeys /\ n > bound) THEN Flag(m.bad, "C10", "C10_Size", idx) ELSE m.bad
        b1 == IF Cardinality(m.open) + 1 > m.maxc THEN Flag(b0, "C10", "C10_Concurrency", idx) ELSE b0
        dupwork == \E j \in 1..n : Count(e.items, e.items[j]) > Count(fifoKeys, e.items[j])
        b2 == IF m.fuzzy \/ e.items = expKeys THEN b1
              ELSE IF dupwork THEN Flag(b1, "C11", "C11_NoDuplicateWork", idx)
              ELSE Flag(b1, "C10", "C10_Fifo", idx)
        ok == e.items = expKeys
        lastArr == IF ok /\ n > 0 THEN m.reqs[exp[n]].t ELSE e.t
        firstArr == IF ok /\ n > 0 THEN m.reqs[exp[1]].t ELSE e.t
        \* sharing with the previous batch
        pb == m.lastb
        b3 == IF ok /\ ~m.fuzzy /\ pb # 0 /\ n > 0 /\ Len(m.batch[pb].reqs) > 0
                 /\ firstArr - m.reqs[m.batch[pb].reqs[Len(m.batch[pb].reqs)]].t < m.bt
                 /\ Len(m.batch[pb].items) < m.batch[pb].cap
              THEN Flag(b2, "C10", "C10_Share", idx) ELSE b2
        \* deadline
        d == lastArr + m.bt
        late == e.t > d /\ ~(m.freedAt = e.t /\ m.busyPrev # -1 /\ m.busyPrev <= d)
        b4 == IF ok /\ ~m.fuzzy /\ n > 0 /\ late THEN Flag(b3, "C10", "C10_Deadline", idx) ELSE b3
        nopen == Cardinality(m.open) + 1
    IN [m EXCEPT !.bad = b4,
                 !.fifo = IF ok THEN SubSeq(@, n + 1, Len(@)) ELSE @,
                 !.reqs = IF ok THEN [r \in DOMAIN @ |-> IF \E j \in 1..n : exp[j] = r
                                                         THEN [@[r] EXCEPT !.batch = e.b] ELSE @[r]]
                          ELSE @,
                 !.fuzzy = @ \/ ~ok,
                 !.batch = Put(@, e.b, [items |-> e.items, reqs |-> IF ok THEN exp ELSE <<>>, t |-> e.t,
                                        how |-> "", first |-> EmptyFn, cap |-> lowest]),
                 !.open = @ \cup {e.b},
                 !.lastb = e.b,
                 !.maxseen = m.curmax, !.capmin = m.curmax,
                 !.busyFrom = IF nopen >= m.maxc
                              THEN (IF m.freedAt = e.t /\ m.busyPrev # -1 THEN m.busyPrev ELSE e.t)
                              ELSE -1]

OnBatchEnd(m, e, idx) ==
    IF e.b \notin m.open THEN m
    ELSE LET m1 == Complete(m, SeqToSet(m.batch[e.b].reqs), e.t) IN
         [m1 EXCEPT !.open = @ \ {e.b},
                   !.batch[e.b].how = e.how,
                   !.busyPrev = IF Cardinality(m.open) >= m.maxc THEN m.busyFrom ELSE @,
                   !.freedAt = IF Cardinality(m.open) >= m.maxc THEN e.t ELSE @,
                   !.busyFrom = -1]

OnCallEnd(m, e, idx) ==
    LET c == m.call[e.i]
        r == m.reqs[c.req]
        p == P(m)
        tag == e.tag
        verdict ==
          IF e.kind = "cancel" THEN (IF c.cancelled THEN "" ELSE "ForeignCancel")
          ELSE IF e.kind = "timeout" THEN (IF c.tmo >= 0 /\ e.t >= c.t + c.tmo THEN "" ELSE "ForeignTimeout")
          ELSE IF m.fuzzy THEN ""
          ELSE IF r.batch = 0
               THEN (IF e.kind \in {"val", "exc", "excasval"} /\ tag[2] = c.key THEN "WrongRequest"
                     ELSE "AnsweredWithoutBatch")
          ELSE LET bb == m.batch[r.batch] IN
               IF c.key \in DOMAIN bb.first
               THEN LET f == bb.first[c.key] IN
                    IF e.kind = "excasval" THEN "ExcReturnedAsValue"
                    ELSE IF e.kind \in {"val", "exc"} /\ tag[2] # c.key THEN "NoCrossKey"
                    ELSE IF e.kind \in {"val", "exc"} /\ tag[1] # r.batch THEN "WrongRequest"
                    ELSE IF e.kind = f.kind /\ tag = f.tag THEN "" ELSE "OwnOutcome"
               ELSE IF e.kind \in {"val", "exc", "excasval"}
                    THEN (IF tag[2] # c.key THEN "NoCrossKey"
                          ELSE IF tag[1] # r.batch THEN "WrongRequest" ELSE "OwnOutcome")
                    ELSE IF bb.how = "raise" /\ ~(e.kind = "batchexc" /\ tag[1] = r.batch) THEN "BatchFailure"
                    ELSE ""
        b1 == IF verdict = "" THEN m.bad
              ELSE IF verdict = "WrongRequest"
                   THEN Flag(Flag(m.bad, p, p \o "_OwnOutcome", idx), "C11", "C11_WrongRequest", idx)
              \* (answered although the request was never handed to the batch function: whatever it got, it is not the
              \*  outcome of this request's own computation - e.g. something retained from elsewhere)
              ELSE IF verdict = "AnsweredWithoutBatch"
                   THEN Flag(Flag(m.bad, p, p \o "_AnsweredWithoutBatch", idx), "C11", "C11_WrongRequest", idx)
              ELSE Flag(m.bad, p, p \o "_" \o verdict, idx)
    IN [m EXCEPT !.bad = b1, !.pendc = @ \ {e.i},
                 !.reqs = IF e.kind \notin {"cancel", "timeout"} THEN [@ EXCEPT ![c.req].answered = TRUE] ELSE @]

MStep(m, e, idx) ==
  CASE e.e = "Config" -> [m EXCEPT !.maxb = e.maxb, !.maxc = e.maxc, !.bt = e.bt, !.rt = e.rt,
                                   !.curmax = e.maxb, !.maxseen = e.maxb, !.capmin = e.maxb]
    [] e.e = "Call" -> OnCall(m, e, idx)
    [] e.e = "Cancel" -> [m EXCEPT !.call[e.i].cancelled = TRUE, !.anyCancel = TRUE]
    [] e.e = "SetMax" -> [m EXCEPT !.curmax = e.n, !.maxseen = Max(@, e.n), !.capmin = Min(@, e.n),
                                    !.maxlog = Append(@, <<e.t, e.n>>)]
    [] e.e = "BatchStart" -> OnBatchStart(m, e, idx)
    [] e.e = "Yield" ->
        IF e.b \in DOMAIN m.batch /\ e.key \notin DOMAIN m.batch[e.b].first
        THEN LET rs == {m.batch[e.b].reqs[j] : j \in {j \in 1..Len(m.batch[e.b].reqs) :
                                                          m.reqs[m.batch[e.b].reqs[j]].key = e.key}}
             IN Complete([m EXCEPT !.batch[e.b].first = Put(@, e.key, [tag |-> e.tag, kind |-> e.kind])], rs, e.t)
        ELSE m
    [] e.e = "BatchEnd" -> OnBatchEnd(m, e, idx)
    [] e.e = "CallEnd" -> OnCallEnd(m, e, idx)
    [] e.e = "Quiescent" ->
        \* long after the last call: a request that still has not been handed to the batch function never will be
        \* (C10: "no later than batch_timeout after ...")
        LET b1 == IF m.fifo # <<>> /\ ~m.fuzzy THEN Flag(m.bad, "C10", "C10_Deadline", idx) ELSE m.bad IN
        IF \E i \in m.pendc : ~m.call[i].cancelled
        THEN [m EXCEPT !.bad = Flag(b1, P(m), P(m) \o "_Answered", idx)]
        ELSE [m EXCEPT !.bad = b1]
    [] e.e = "End" ->
        IF e.status # "ok" THEN [m EXCEPT !.bad = Flag(@, P(m), P(m) \o "_Answered", idx)] ELSE m
    [] OTHER -> m
=============================================================================
