--------------------------- MODULE BatcherConform ---------------------------
(***************************************************************************)
(* Implementation conformance (code -> spec) for the batcher: one recorded *)
(* execution of the real AsyncBackgroundBatcher (class form) is accepted   *)
(* iff the timed model Batcher.tla has a behaviour that emits the same     *)
(* observable events at the same (scaled) times, with silent assembler /   *)
(* clean-up / clock steps in between, and whose projected state            *)
(*     queue length, keys in the retention cache, free semaphore slots     *)
(* equals the state read from the real object at every observable event    *)
(* (before the step for Call and BatchEnd, which the harness logs before   *)
(* the code acts; after the step otherwise).                               *)
(* The trace T, the scaling and the constants come from the generated      *)
(* wrapper module (one TLC run per trace).                                 *)
(***************************************************************************)
EXTENDS Batcher, Json, IOUtils

T == JsonDeserialize(IOEnv.TRACE_FILE)

VARIABLES l, sil
cvars == <<vars, l, sil>>

Proj == [q |-> Len(queue), keys |-> DOMAIN cache, sem |-> sem]
ObsKeys(e) == {e.st.keys[i] : i \in 1..Len(e.st.keys)}
Logged(e) == [q |-> e.st.q, keys |-> ObsKeys(e), sem |-> e.st.sem]
Norm(e) == [f \in (DOMAIN e) \ {"st"} |-> IF f = "n" THEN 0 ELSE e[f]]

CInit == Init /\ l = 1 /\ sil = 0 /\ TLCSet(1, 0)

Consume == /\ l <= Len(T)
           /\ now = T[l].t
           /\ Next
           /\ mon' # mon
           /\ mon' = MStep(mon, Norm(T[l]), 0)
           /\ IF T[l].e \in {"Call", "BatchEnd"} THEN Proj = Logged(T[l]) ELSE Proj' = Logged(T[l])
           /\ l' = l + 1 /\ sil' = 0
Silent == /\ l <= Len(T)
          /\ sil < 400
          /\ now <= T[l].t
          /\ Next
          /\ mon' = mon /\ vars' # vars
          /\ l' = l /\ sil' = sil + 1
CNext == Consume \/ Silent
Reached == IF l > TLCGet(1) THEN TLCSet(1, l) /\ PrintT(<<"REACHED", 1, l, Len(T) + 1>>) ELSE TRUE
NotYetAccepted == TLCGet(1) <= Len(T)
=============================================================================
