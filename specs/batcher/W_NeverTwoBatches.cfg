SPECIFICATION Spec
CONSTANTS
 Calls <- C3
 KeyOf <- Keys_aab
 MaxB = 2
 MaxC = 1
 BT = 2
 RT = 0
 MaxTime = 4
 Behav <- BehAllVal
 Cancels = FALSE
 Raises = FALSE
 Misbehaves = FALSE
 ShieldShared = TRUE
INVARIANT NeverTwoBatches
