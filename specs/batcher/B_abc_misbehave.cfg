SPECIFICATION Spec
CONSTANTS
 Calls <- C3
 KeyOf <- Keys_abc
 MaxB = 2
 MaxC = 1
 BT = 2
 RT = 0
 MaxTime = 4
 Behav <- BehMixed
 Cancels = FALSE
 Raises = TRUE
 Misbehaves = TRUE
 ShieldShared = TRUE
INVARIANT Inv_C04
INVARIANT Inv_C09
INVARIANT Inv_C10
INVARIANT Inv_C11
INVARIANT OneEntryPerKey
INVARIANT SemBound
INVARIANT NoStuck
