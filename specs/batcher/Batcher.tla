------------------------------- MODULE Batcher -------------------------------
(***************************************************************************)
(* Implementation-shaped, timed specification of aiuti.asyncio.            *)
(* AsyncBackgroundBatcher on one event loop (after the repairs f6533e6 /   *)
(* 920cd17): __call__, _forget, _processing_loop/_get_next_batch,          *)
(* _process_batch.  Time is an integer clock `now` that advances only when *)
(* nothing is runnable on the loop (Tick), like the virtual-time loop the  *)
(* real code is executed on.                                               *)
(*                                                                         *)
(* The contract monitor of BatcherContract is composed in (variable mon),  *)
(* so the clauses of C04, C09, C10, C11 are invariants of this model and   *)
(* TLC decides them for every arrival pattern, result order, per-key       *)
(* behaviour and cancellation within the constants.                        *)
(*                                                                         *)
(* ShieldShared = FALSE models the code before repair f6533e6 (callers     *)
(* await the shared future directly; cancelling a caller cancels it) and   *)
(* is used by the witness configuration only.                              *)
(***************************************************************************)
EXTENDS BatcherContract

CONSTANTS Calls,        \* set of call ids 1..N
          KeyOf,        \* call -> key
          MaxB, MaxC, BT, RT,
          MaxTime,      \* calls arrive at any tick in 0..MaxTime
          Behav,        \* key -> "value" | "excval" | "omit"
          Cancels,      \* BOOLEAN: callers may be cancelled while waiting
          Raises,       \* BOOLEAN: the batch function may raise instead of yielding an item
          Misbehaves,   \* BOOLEAN: the batch function may yield a key it was not given / has already answered
          ShieldShared

VARIABLES now,
          cpc,       \* call -> "new" | "wait" | "done"
          cfut,      \* call -> future id it waits on
          cache,     \* key -> future id (the retention cache)
          fut,       \* future id -> [key, st]   st: "pending" | "val" | "exc" | "cancelled"
          ftag,      \* future id -> tag of its result
          forgetAt,  \* future id -> tick at which its cache entry is dropped (-1 = not scheduled)
          queue,     \* sequence of future ids
          asm,       \* [st |-> "idle" | "collecting", items |-> Seq(fut id), deadline |-> tick]
          ready,     \* assembled batches that have not entered the function yet: FIFO of [items, st]; st = "new" (its task
                     \* has not tried the semaphore yet) | "waiting" (blocked in acquire) | "granted" (a release handed it the slot)
          run,       \* batch id -> [items, todo (fut ids not yet handled), st]
          nb, ny, sem,
          mon

vars == <<now, cpc, cfut, cache, fut, ftag, forgetAt, queue, asm, ready, run, nb, ny, sem, mon>>

Emit(e) == MStep(mon, e @@ [t |-> now, n |-> 0], 0)
NoTag == <<0, "", 0>>

Init ==
    /\ now = 0
    /\ cpc = [i \in Calls |-> "new"]
    /\ cfut = [i \in Calls |-> 0]
    /\ cache = EmptyFn
    /\ fut = EmptyFn
    /\ ftag = EmptyFn
    /\ forgetAt = EmptyFn
    /\ queue = <<>>
    /\ asm = [st |-> "idle", items |-> <<>>, deadline |-> 0]
    /\ ready = <<>>
    /\ run = EmptyFn
    /\ nb = 0 /\ ny = 0
    /\ sem = MaxC
    /\ mon = MStep(MInit, [e |-> "Config", maxb |-> MaxB, maxc |-> MaxC, bt |-> BT, rt |-> RT, t |-> 0, n |-> 0], 0)

\* ---------------------------------------------------------------- __call__
Arrive(i) ==     \* a caller calls the batcher: look the key up, join or create + enqueue
    /\ cpc[i] = "new" /\ now <= MaxTime
    /\ \A j \in Calls : j < i => cpc[j] # "new"           \* calls arrive in id order (symmetry)
    /\ LET k == KeyOf[i] IN
       IF k \in DOMAIN cache
       THEN /\ cfut' = [cfut EXCEPT ![i] = cache[k]]
            /\ UNCHANGED <<cache, fut, ftag, forgetAt, queue>>
       ELSE LET f == Cardinality(DOMAIN fut) + 1 IN
            /\ fut' = Put(fut, f, [key |-> k, st |-> "pending"])
            /\ ftag' = Put(ftag, f, NoTag)
            /\ forgetAt' = Put(forgetAt, f, -1)
            /\ cache' = Put(cache, k, f)
            /\ queue' = Append(queue, f)
            /\ cfut' = [cfut EXCEPT ![i] = f]
    \* (awaiting a future that is done already does not suspend: such a caller returns within its own task step,
    \*  before the pending _forget callback of that future gets its turn: "late")
    /\ cpc' = [cpc EXCEPT ![i] = IF KeyOf[i] \in DOMAIN cache /\ fut[cache[KeyOf[i]]].st # "pending" THEN "late" ELSE "wait"]
    /\ mon' = Emit([e |-> "Call", i |-> i, key |-> KeyOf[i], loop |-> "L1", tmo |-> -1])
    /\ UNCHANGED <<now, asm, ready, run, nb, ny, sem>>

Answer(i) ==     \* the awaited (shielded) future is resolved: the caller returns / raises
    /\ cpc[i] \in {"wait", "late"} /\ fut[cfut[i]].st \in {"val", "exc", "berr", "missing", "cancelled"}
    \* _forget is the first done-callback of the future: it runs before any *waiting* caller is woken
    /\ cpc[i] = "late" \/ ~(forgetAt[cfut[i]] # -1 /\ forgetAt[cfut[i]] <= now /\ RT = 0)
    /\ cpc' = [cpc EXCEPT ![i] = "done"]
    /\ LET f == cfut[i]
           kind == CASE fut[f].st = "val" -> "val" [] fut[f].st = "exc" -> "exc"
                     [] fut[f].st = "berr" -> "batchexc" [] fut[f].st = "missing" -> "other"
                     [] OTHER -> "cancel"
       IN mon' = Emit([e |-> "CallEnd", i |-> i, kind |-> kind, tag |-> ftag[f], exctype |-> fut[f].st])
    /\ UNCHANGED <<now, cfut, cache, fut, ftag, forgetAt, queue, asm, ready, run, nb, ny, sem>>

CancelCaller(i) ==  \* the harness cancels a waiting caller: task.cancel() cancels the outer (shield) future at once ...
    /\ Cancels /\ cpc[i] = "wait" /\ fut[cfut[i]].st = "pending"
    /\ cpc' = [cpc EXCEPT ![i] = "cancelling"]
    /\ mon' = Emit([e |-> "Cancel", i |-> i])
    /\ IF ShieldShared THEN UNCHANGED <<fut, forgetAt>>
       ELSE \* before the repair: the shared future itself is cancelled (and its done-callback runs)
            /\ fut' = [fut EXCEPT ![cfut[i]].st = "cancelled"]
            /\ forgetAt' = [forgetAt EXCEPT ![cfut[i]] = now + RT]
    /\ UNCHANGED <<now, cfut, cache, ftag, queue, asm, ready, run, nb, ny, sem>>

CancelDelivered(i) ==  \* ... and the caller's task receives CancelledError when it is scheduled next (whatever happens to
                       \* the shared future in between)
    /\ cpc[i] = "cancelling"
    /\ cpc' = [cpc EXCEPT ![i] = "done"]
    /\ mon' = Emit([e |-> "CallEnd", i |-> i, kind |-> "cancel", tag |-> NoTag, exctype |-> "CancelledError"])
    /\ UNCHANGED <<now, cfut, cache, fut, ftag, forgetAt, queue, asm, ready, run, nb, ny, sem>>

Forget(f) ==     \* _forget(): drop the cache entry of a completed request, retention_timeout later
    /\ forgetAt[f] # -1 /\ forgetAt[f] <= now
    /\ forgetAt' = [forgetAt EXCEPT ![f] = -1]
    /\ cache' = IF fut[f].key \in DOMAIN cache /\ cache[fut[f].key] = f THEN Drop(cache, fut[f].key) ELSE cache
    /\ UNCHANGED <<now, cpc, cfut, fut, ftag, queue, asm, ready, run, nb, ny, sem, mon>>

\* ---------------------------------------------------------------- _get_next_batch
AsmTake ==       \* first q.get() / get_nowait() / wait_for(q.get(), batch_timeout) returning an item
    /\ queue # <<>> /\ Len(asm.items) < MaxB
    /\ LET items == Append(asm.items, Head(queue)) IN
       IF Len(items) = MaxB
       THEN /\ ready' = Append(ready, [items |-> items, st |-> "new"])
            /\ asm' = [st |-> "idle", items |-> <<>>, deadline |-> 0]
       ELSE /\ asm' = [st |-> "collecting", items |-> items, deadline |-> now + BT]
            /\ UNCHANGED ready
    /\ queue' = Tail(queue)
    /\ UNCHANGED <<now, cpc, cfut, cache, fut, ftag, forgetAt, run, nb, ny, sem, mon>>

AsmTimeout ==    \* AioTimeoutError: no more tasks coming
    /\ asm.st = "collecting" /\ queue = <<>> /\ asm.deadline <= now
    /\ ready' = Append(ready, [items |-> asm.items, st |-> "new"])
    /\ asm' = [st |-> "idle", items |-> <<>>, deadline |-> 0]
    /\ UNCHANGED <<now, cpc, cfut, cache, fut, ftag, forgetAt, queue, run, nb, ny, sem, mon>>

\* ---------------------------------------------------------------- _process_batch
\* asyncio.Semaphore (3.11+): acquire() takes a free slot only if nobody is queued, otherwise it queues (FIFO);
\* release() hands the slot directly to the first queued waiter (the value stays 0) and only otherwise increments it
CanTake == /\ ready # <<>>
           /\ (Head(ready).st = "granted" \/ (Head(ready).st = "new" /\ sem > 0))
BatchStart ==    \* async with self._semaphore: self.func(args) is entered
    /\ CanTake
    /\ nb' = nb + 1
    /\ sem' = IF Head(ready).st = "granted" THEN sem ELSE sem - 1
    /\ LET its == Head(ready).items IN
       /\ run' = Put(run, nb + 1, [items |-> its, todo |-> SeqToSet(its), st |-> "run"])
       /\ mon' = Emit([e |-> "BatchStart", b |-> nb + 1, items |-> [j \in 1..Len(its) |-> fut[its[j]].key], loop |-> "L1"])
    /\ ready' = Tail(ready)
    /\ UNCHANGED <<now, cpc, cfut, cache, fut, ftag, forgetAt, queue, asm, ny>>

Blockable(j) == /\ j \in 1..Len(ready) /\ ready[j].st = "new"
                /\ \A i \in 1..(j - 1) : ready[i].st # "new"
                /\ (j > 1 \/ sem = 0)
BatchBlock ==    \* a batch task finds no free slot (or others queued before it): it queues in acquire()
    /\ \E j \in 1..Len(ready) : Blockable(j) /\ ready' = [ready EXCEPT ![j].st = "waiting"]
    /\ UNCHANGED <<now, cpc, cfut, cache, fut, ftag, forgetAt, queue, asm, run, nb, ny, sem, mon>>

\* the effect of leaving `async with self._semaphore` on <<sem, ready>>
HasWaiter == \E j \in 1..Len(ready) : ready[j].st = "waiting"
FirstWaiter == CHOOSE j \in 1..Len(ready) : ready[j].st = "waiting" /\ \A i \in 1..(j - 1) : ready[i].st # "waiting"
Release == IF HasWaiter THEN /\ ready' = [ready EXCEPT ![FirstWaiter].st = "granted"] /\ UNCHANGED sem
           ELSE /\ sem' = sem + 1 /\ UNCHANGED ready

SetFut(f, st, tag) ==
    /\ fut' = [fut EXCEPT ![f].st = IF fut[f].st = "pending" THEN st ELSE @]
    /\ ftag' = [ftag EXCEPT ![f] = IF fut[f].st = "pending" THEN tag ELSE @]
    /\ forgetAt' = [forgetAt EXCEPT ![f] = IF fut[f].st = "pending" THEN now + RT ELSE @]

BatchYield(b, f) ==  \* the batch function yields the result for one item (any order, any time)
    /\ b \in DOMAIN run /\ run[b].st = "run" /\ f \in run[b].todo
    /\ LET k == fut[f].key
           beh == Behav[k] IN
       IF beh = "omit"
       THEN /\ run' = [run EXCEPT ![b].todo = @ \ {f}, ![b].st = "run"]
            /\ UNCHANGED <<fut, ftag, forgetAt, ny, mon>>
            /\ FALSE     \* omitted keys are simply never yielded (handled at BatchEnd)
       ELSE /\ ny' = ny + 1
            /\ run' = [run EXCEPT ![b].todo = @ \ {f}]
            /\ LET tag == <<b, k, ny + 1>>
                   kind == IF beh = "excval" THEN "exc" ELSE "val" IN
               /\ mon' = Emit([e |-> "Yield", b |-> b, key |-> k, tag |-> tag, kind |-> kind])
               /\ IF fut[f].st = "cancelled"
                  THEN \* before the repair: set_result on the cancelled future raises InvalidStateError,
                       \* which is delivered to every other future of the batch; the batch ends
                       /\ fut' = [g \in DOMAIN fut |-> IF g \in run[b].todo \ {f} /\ fut[g].st = "pending"
                                                       THEN [fut[g] EXCEPT !.st = "missing"] ELSE fut[g]]
                       /\ forgetAt' = [g \in DOMAIN forgetAt |-> IF g \in run[b].todo \ {f} /\ fut[g].st = "pending"
                                                                THEN now + RT ELSE forgetAt[g]]
                       /\ UNCHANGED ftag
                  ELSE SetFut(f, kind, tag)
    /\ UNCHANGED <<now, cpc, cfut, cache, queue, asm, ready, nb, sem>>

BatchRaise(b) == \* the batch function raises (possibly after its last item): every unanswered future gets the exception
    /\ Raises /\ b \in DOMAIN run /\ run[b].st = "run"
    /\ mon' = Emit([e |-> "BatchEnd", b |-> b, how |-> "raise"])
    /\ fut' = [g \in DOMAIN fut |-> IF g \in run[b].todo /\ fut[g].st = "pending"
                                    THEN [fut[g] EXCEPT !.st = "berr"] ELSE fut[g]]
    /\ ftag' = [g \in DOMAIN ftag |-> IF g \in run[b].todo /\ fut[g].st = "pending" THEN <<b, "", 0>> ELSE ftag[g]]
    /\ forgetAt' = [g \in DOMAIN forgetAt |-> IF g \in run[b].todo /\ fut[g].st = "pending" THEN now + RT ELSE forgetAt[g]]
    /\ run' = [run EXCEPT ![b].st = "done", ![b].todo = {}]
    /\ Release
    /\ UNCHANGED <<now, cpc, cfut, cache, queue, asm, nb, ny>>

BatchMisbehave(b) == \* the function yields a key it was not given (or one it answered already): futs.pop(key)
                     \* raises KeyError inside the `async with`; every unanswered future of the batch gets it
    /\ Misbehaves /\ b \in DOMAIN run /\ run[b].st = "run"
    /\ mon' = Emit([e |-> "BatchEnd", b |-> b, how |-> "misbehave"])
    /\ fut' = [g \in DOMAIN fut |-> IF g \in run[b].todo /\ fut[g].st = "pending"
                                    THEN [fut[g] EXCEPT !.st = "missing"] ELSE fut[g]]
    /\ forgetAt' = [g \in DOMAIN forgetAt |-> IF g \in run[b].todo /\ fut[g].st = "pending" THEN now + RT ELSE forgetAt[g]]
    /\ run' = [run EXCEPT ![b].st = "done", ![b].todo = {}]
    /\ Release
    /\ ny' = ny + 1           \* (the offending item is a yield like any other)
    /\ UNCHANGED <<now, cpc, cfut, cache, ftag, queue, asm, nb>>

BatchEnd(b) ==   \* the generator is exhausted: missing keys get ValueError; the slot is released
    /\ b \in DOMAIN run /\ run[b].st = "run"
    /\ \A f \in run[b].todo : Behav[fut[f].key] = "omit"
    /\ mon' = Emit([e |-> "BatchEnd", b |-> b, how |-> "ok"])
    /\ fut' = [g \in DOMAIN fut |-> IF g \in run[b].todo /\ fut[g].st = "pending"
                                    THEN [fut[g] EXCEPT !.st = "missing"] ELSE fut[g]]
    /\ forgetAt' = [g \in DOMAIN forgetAt |-> IF g \in run[b].todo /\ fut[g].st = "pending" THEN now + RT ELSE forgetAt[g]]
    /\ run' = [run EXCEPT ![b].st = "done", ![b].todo = {}]
    /\ Release
    /\ UNCHANGED <<now, cpc, cfut, cache, ftag, queue, asm, nb, ny>>

\* ---------------------------------------------------------------- time
\* steps the loop performs without waiting (they are taken before the clock may advance)
Urgent == \/ queue # <<>> /\ Len(asm.items) < MaxB
          \/ asm.st = "collecting" /\ queue = <<>> /\ asm.deadline <= now
          \/ CanTake \/ \E j \in 1..Len(ready) : Blockable(j)
          \/ \E i \in Calls : cpc[i] \in {"wait", "late"} /\ fut[cfut[i]].st # "pending"
          \/ \E i \in Calls : cpc[i] = "cancelling"
          \/ \E f \in DOMAIN forgetAt : forgetAt[f] # -1 /\ forgetAt[f] <= now
Horizon == MaxTime + 3 * (BT + RT + 2)
Tick == /\ ~Urgent /\ now < Horizon
        /\ (now < MaxTime \/ \A i \in Calls : cpc[i] # "new")      \* every call arrives by MaxTime
        /\ now' = now + 1
        /\ UNCHANGED <<cpc, cfut, cache, fut, ftag, forgetAt, queue, asm, ready, run, nb, ny, sem, mon>>

AllDone == \A i \in Calls : cpc[i] = "done"
Finish == AllDone /\ UNCHANGED vars

DoForget == \E f \in DOMAIN forgetAt : Forget(f)
DoYield == \E b \in DOMAIN run : \E f \in run[b].todo : BatchYield(b, f)
DoRaise == \E b \in DOMAIN run : BatchRaise(b) \/ BatchMisbehave(b)
DoEnd == \E b \in DOMAIN run : BatchEnd(b)
Next == \/ \E i \in Calls : Arrive(i) \/ Answer(i) \/ CancelCaller(i) \/ CancelDelivered(i)
        \/ DoForget \/ AsmTake \/ AsmTimeout \/ BatchStart \/ BatchBlock \/ DoYield \/ DoRaise \/ DoEnd
        \/ Tick \/ Finish
Spec == Init /\ [][Next]_vars
FairSpec == Spec /\ WF_vars(Next)

\* ---------------------------------------------------------------- properties
Inv_C04 == mon.bad["C04"] = Ok
Inv_C09 == mon.bad["C09"] = Ok
Inv_C10 == mon.bad["C10"] = Ok
Inv_C11 == mon.bad["C11"] = Ok
\* every call is answered (C04_Answered / C09_AllComplete as liveness)
Answered == <>[]AllDone
NoStuck == (now = Horizon /\ ~Urgent) => \A i \in Calls : cpc[i] # "wait" \/ \E b \in DOMAIN run : run[b].st = "run"
\* structure the code relies on
OneEntryPerKey == \A k \in DOMAIN cache : fut[cache[k]].key = k
SemBound == sem >= 0 /\ sem <= MaxC
\* vacuity witnesses
NeverJoins == \A i, j \in Calls : i # j /\ cpc[i] # "new" /\ cpc[j] # "new" => cfut[i] # cfut[j]
NeverTwoBatches == nb < 2
NeverFull == \A b \in DOMAIN run : Len(run[b].items) < MaxB
=============================================================================
