----------------------------- MODULE MC_Buffer -----------------------------
EXTENDS Buffer
E3 == 1..3
E4 == 1..4
E2 == 1..2
NoWaits == {}
W1 == {1}
W2 == {1, 2}
CancelT == [w \in {1} |-> TRUE]
CancelF == [w \in {1} |-> FALSE]
CancelTF == (1 :> TRUE) @@ (2 :> FALSE)
NoCancel == [w \in {} |-> TRUE]
=============================================================================
