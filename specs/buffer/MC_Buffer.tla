----------------------------- MODULE MC_Buffer -----------------------------
EXTENDS Buffer
E3 == 1..3
E4 == 1..4
E2 == 1..2
NoWaits == {}
W1 == {1}
W2 == {1, 2}
CancelT == [w \in {1} |-> TRUE]
CancelF == [w \in {1} |-> FALSE]
CancelTF == (1 :> TRUE) @@ (2 :> FALSE)
NoCancel == [w \in {} |-> TRUE]
AllCalls == [x \in 1..4 |-> "call"]
NoLoad == [x \in 1..4 |-> 0]
\* producer mixes (kind, drain time) for 3 / 4 submissions
K_acf == (1 :> "await") @@ (2 :> "call") @@ (3 :> "afail") @@ (4 :> "call")
L_acf == (1 :> 3) @@ (2 :> 0) @@ (3 :> 1) @@ (4 :> 0)
K_cae == (1 :> "call") @@ (2 :> "await") @@ (3 :> "empty") @@ (4 :> "await")
L_cae == (1 :> 0) @@ (2 :> 2) @@ (3 :> 0) @@ (4 :> 1)
K_eaa == (1 :> "empty") @@ (2 :> "await") @@ (3 :> "await") @@ (4 :> "call")
L_eaa == (1 :> 0) @@ (2 :> 1) @@ (3 :> 4) @@ (4 :> 0)
K_aaa == [x \in 1..4 |-> "await"]
L_222 == [x \in 1..4 |-> 2]
=============================================================================
