---------------------------- MODULE BufferContract ----------------------------
(***************************************************************************)
(* Observable contract of buffer_until_timeout / BufferAsyncCalls:         *)
(*   C03 buffered arguments are never lost, C07 wait() is a barrier and    *)
(*   returns / shutdown terminates, C08 debounce.                          *)
(* Events (t = virtual ms):                                                *)
(*  Config{tau}  Submit{id,kind,thr,imm}  Produced{id,x}  ProducerDone{id} *)
(*  ProducerFailed{id}  FuncStart{n,S}  FuncEnd{n,how}  WaitCall{w,cancel, *)
(*  thr}  WaitRet{w}  Quiescent  Shutdown  ShutdownDone  Tick  End{status} *)
(***************************************************************************)
EXTENDS Util

Props == {"C03", "C07", "C08"}
NoJ == [on |-> FALSE, t |-> 0, la |-> 0, S |-> {}, want |-> {}, late |-> FALSE]

MInit == [
    tau    |-> 4000,
    sub    |-> EmptyFn,   \* id -> [thr, imm, t, fin]   fin: producer finished (done or failed)
    prod   |-> EmptyFn,   \* x -> submission id (every element produced so far)
    okset  |-> {},        \* elements delivered in a call that completed without error
    cur    |-> 0,         \* running invocation or 0
    curS   |-> {},
    lastFail |-> {},      \* arguments of the last failed call, still owed
    waits  |-> EmptyFn,   \* w -> [thr, before, pend]
    shut   |-> "no",
    \* debounce bookkeeping (C08): the current idle window
    arr    |-> <<>>,      \* <<t, id>> of immediate submissions that arrived while the function was idle
    dirty  |-> FALSE,     \* something makes this window's timing not subject to C08_Quiet/Together
    pj     |-> NoJ,       \* pending judgement of the last FuncStart (ties are decided by later events)
    lastImm |-> -1,       \* time of the latest immediate submission (C08_Quiet, whether or not the function was idle)
    flush  |-> FALSE,     \* a forced flush (wait(cancel=True) / shutdown) or a non-immediate submission since the last call
    qj     |-> [on |-> FALSE, t |-> 0, la |-> 0],
    bad    |-> [p \in Props |-> Ok]]

ElemsOf(m, ids) == {x \in DOMAIN m.prod : m.prod[x] \in ids}
Unfinished(m) == {i \in DOMAIN m.sub : ~m.sub[i].fin}
ArrIds(m) == {m.arr[i][2] : i \in 1..Len(m.arr)}
GapsOk(m) == \A i \in 1..(Len(m.arr) - 1) : m.arr[i + 1][1] - m.arr[i][1] < m.tau

\* settle the pending judgement once time has moved past it
JudgeQ(m, idx) ==
    IF ~m.qj.on THEN m
    ELSE [m EXCEPT !.qj.on = FALSE,
                   !.bad = IF m.qj.t - m.qj.la > 0 /\ m.qj.t - m.qj.la < m.tau
                           THEN Flag(@, "C08", "C08_Quiet", idx) ELSE @]

Judge(m, idx) ==
    IF ~m.pj.on THEN m
    ELSE LET j == m.pj
             b1 == IF j.t - j.la > 0 /\ j.t - j.la < m.tau
                   THEN Flag(m.bad, "C08", "C08_Quiet", idx) ELSE m.bad
             b2 == IF j.t - j.la > m.tau \/ j.late \/ (j.t - j.la = m.tau /\ j.S # j.want)
                   THEN Flag(b1, "C08", "C08_Together", idx) ELSE b1
         IN [m EXCEPT !.pj = NoJ, !.bad = b2]

MStep(mm, e, idx) ==
  LET m1q == IF mm.qj.on /\ e.t > mm.qj.t THEN JudgeQ(mm, idx) ELSE mm
      m == IF m1q.pj.on /\ e.t > m1q.pj.t THEN Judge(m1q, idx) ELSE m1q IN
  CASE e.e = "Config" -> [m EXCEPT !.tau = e.tau]
    [] e.e = "Submit" ->
        LET tie == \/ (m.pj.on /\ e.t = m.pj.t)
                   \/ (Len(m.arr) > 0 /\ e.t - m.arr[Len(m.arr)][1] = m.tau)
            m1 == [m EXCEPT !.sub = Put(@, e.id, [thr |-> e.thr, imm |-> e.imm, t |-> e.t, fin |-> FALSE]),
                            !.pj = IF m.pj.on /\ e.t = m.pj.t THEN NoJ ELSE @,
                            !.qj = IF m.qj.on /\ e.t = m.qj.t THEN [@ EXCEPT !.on = FALSE] ELSE @,
                            !.lastImm = IF e.imm THEN e.t ELSE @,
                            !.flush = IF e.imm THEN @ ELSE TRUE]
        IN IF tie \/ ~e.imm \/ m.cur # 0
           THEN [m1 EXCEPT !.dirty = TRUE]
           ELSE \* a burst that produced no element caused (rightly) no call: it does not count
                IF Len(m.arr) > 0 /\ e.t - m.arr[Len(m.arr)][1] > m.tau /\ ElemsOf(m, ArrIds(m)) = {}
                THEN [m1 EXCEPT !.arr = << <<e.t, e.id>> >>]
                ELSE [m1 EXCEPT !.arr = Append(@, <<e.t, e.id>>)]
    [] e.e = "Produced" -> [m EXCEPT !.prod = Put(@, e.x, e.id)]
    [] e.e \in {"ProducerDone", "ProducerFailed"} -> [m EXCEPT !.sub[e.id].fin = TRUE]
    [] e.e = "FuncStart" ->
        LET S == SeqToSet(e.S)
            b1 == IF m.cur # 0 THEN Flag(m.bad, "C08", "C08_Serial", idx) ELSE m.bad
            b2 == IF S = {} THEN Flag(b1, "C08", "C08_NonEmpty", idx) ELSE b1
            b3 == IF ~(S \subseteq DOMAIN m.prod) THEN Flag(b2, "C03", "C03_OnlySubmitted", idx) ELSE b2
            b4 == IF ~(m.lastFail \subseteq S) THEN Flag(b3, "C03", "C03_KeptOnFailure", idx) ELSE b3
            b5 == IF \E x \in S : x \in m.okset /\ x \in DOMAIN m.prod /\ m.sub[m.prod[x]].thr = "L1"
                  THEN Flag(b4, "C03", "C03_ExactlyOnce", idx) ELSE b4
            judge == ~m.dirty /\ Len(m.arr) > 0 /\ Unfinished(m) = {}
                     /\ (m.lastFail = {} \/ m.arr[1][2] = 0)
        IN [m EXCEPT !.cur = e.n, !.curS = S, !.bad = b5,
                     \* (only windows whose timing is determined by immediate submissions alone: every non-immediate
                     \*  submission so far was already delivered before this call)
                     !.qj = IF ~m.flush /\ m.lastImm >= 0 /\ Unfinished(m) = {}
                               /\ (\A i \in DOMAIN m.sub : ~m.sub[i].imm => ElemsOf(m, {i}) \subseteq m.okset)
                               /\ ~(\E w \in DOMAIN m.waits : m.waits[w].pend /\ m.waits[w].cancel)
                            THEN [on |-> TRUE, t |-> e.t, la |-> m.lastImm] ELSE [@ EXCEPT !.on = FALSE],
                     !.flush = FALSE,
                     !.pj = IF judge
                            THEN [on |-> TRUE, t |-> e.t, la |-> m.arr[Len(m.arr)][1], S |-> S,
                                  want |-> ElemsOf(m, ArrIds(m)) \cup m.lastFail, late |-> ~GapsOk(m)]
                            ELSE NoJ]
    [] e.e = "FuncEnd" ->
        \* A failed call is retried like a fresh burst that arrived when it failed: the quiet period starts over at
        \* that instant (pseudo-arrival 0), later submissions extend it, and the retry carries the failed arguments too.
        LET undelivered == \E i \in DOMAIN m.sub : m.sub[i].t >= 0 /\ ~(ElemsOf(m, {i}) \subseteq (m.okset \cup m.curS)) IN
        [m EXCEPT !.cur = 0,
                  !.okset = IF e.how = "ok" THEN @ \cup m.curS ELSE @,
                  !.lastFail = IF e.how = "fail" THEN m.curS ELSE IF e.how = "ok" THEN {} ELSE @,
                  !.arr = IF e.how = "fail" THEN << <<e.t, 0>> >> ELSE <<>>,
                  !.lastImm = IF e.how = "fail" THEN e.t ELSE @,
                  \* arrivals during the run / a cancelled run make the next window's timing unjudged
                  !.dirty = IF e.how = "fail"
                            THEN (\E i \in DOMAIN m.sub : m.sub[i].t >= 0 /\ ~(ElemsOf(m, {i}) \subseteq (m.okset \cup m.curS))
                                                            /\ ~(ElemsOf(m, {i}) \subseteq m.curS)) \/ Unfinished(m) # {}
                            ELSE (e.how # "ok") \/ undelivered \/ Unfinished(m) # {}]
    [] e.e = "WaitCall" ->
        [m EXCEPT !.waits = Put(@, e.w, [thr |-> e.thr, pend |-> TRUE, cancel |-> e.cancel,
                                         before |-> {i \in DOMAIN m.sub : m.sub[i].thr = e.thr}]),
                  !.dirty = IF e.cancel THEN TRUE ELSE @,
                  !.flush = IF e.cancel THEN TRUE ELSE @,
                  !.qj = IF e.cancel /\ m.qj.on /\ e.t = m.qj.t THEN [@ EXCEPT !.on = FALSE] ELSE @,
                  !.pj = IF e.cancel /\ m.pj.on /\ e.t = m.pj.t THEN NoJ ELSE @]
    [] e.e = "WaitRet" ->
        LET w == m.waits[e.w]
            okb == /\ \A i \in w.before : m.sub[i].fin
                   /\ ElemsOf(m, w.before) \subseteq m.okset
        IN [m EXCEPT !.waits[e.w].pend = FALSE,
                     !.bad = IF okb THEN @ ELSE Flag(@, "C07", "C07_Barrier", idx)]
    [] e.e = "Quiescent" ->
        LET b1 == IF DOMAIN m.prod \subseteq m.okset THEN m.bad ELSE Flag(m.bad, "C03", "C03_AllDelivered", idx)
            b2 == IF \E w \in DOMAIN m.waits : m.waits[w].pend THEN Flag(b1, "C07", "C07_Returns", idx) ELSE b1
            \* C08: the arguments of a burst of immediate submissions are delivered (in one call, timeout after the last)
            b3 == IF \E i \in DOMAIN m.sub : m.sub[i].imm /\ ~(ElemsOf(m, {i}) \subseteq m.okset)
                  THEN Flag(b2, "C08", "C08_Together_never_delivered", idx) ELSE b2
        IN [m EXCEPT !.bad = b3]
    [] e.e = "Shutdown" -> [m EXCEPT !.shut = "begun", !.dirty = TRUE, !.flush = TRUE,
                                     !.qj = IF m.qj.on /\ e.t = m.qj.t THEN [@ EXCEPT !.on = FALSE] ELSE @,
                                     !.pj = IF m.pj.on /\ e.t = m.pj.t THEN NoJ ELSE @]
    [] e.e = "ShutdownDone" -> [m EXCEPT !.shut = "done"]
    [] e.e = "End" ->
        LET m2 == Judge(JudgeQ(m, idx), idx)
            b1 == IF m2.shut = "begun" THEN Flag(m2.bad, "C07", "C07_ShutdownTerminates", idx) ELSE m2.bad
            b2 == IF e.status # "ok" /\ m2.shut = "no"
                  THEN Flag(Flag(b1, "C03", "C03_Hang", idx), "C07", "C07_Returns", idx) ELSE b1
        IN [m2 EXCEPT !.bad = b2]
    [] OTHER -> m
=============================================================================
