SPECIFICATION Spec
CONSTANTS
 Elems <- E2
 TAU = 2
 Dur = 1
 FailSet = {1}
 MaxTime = 3
 Waits <- W2
 CancelOf <- CancelTF
 Foreign = FALSE
 KindOf <- AllCalls
 LoadOf <- NoLoad
 Shutdowns = FALSE
 CancelAware = TRUE
 ClearInputs = TRUE
INVARIANT Inv_C03
INVARIANT Inv_C07
INVARIANT Inv_C08
INVARIANT DeliveredAtHorizon
INVARIANT NoWaitStuck
