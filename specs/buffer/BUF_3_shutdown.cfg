SPECIFICATION Spec
CONSTANTS
 Elems <- E3
 TAU = 2
 Dur = 3
 FailSet = {1}
 MaxTime = 5
 Waits <- NoWaits
 CancelOf <- NoCancel
 Foreign = FALSE
 KindOf <- AllCalls
 LoadOf <- NoLoad
 Shutdowns = TRUE
 CancelAware = TRUE
 ClearInputs = TRUE
INVARIANT Inv_C03
INVARIANT Inv_C07
INVARIANT Inv_C08
INVARIANT DeliveredAtHorizon
INVARIANT NoWaitStuck
INVARIANT ShutdownTerminates
INVARIANT ShutdownCompletes
