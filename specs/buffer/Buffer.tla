------------------------------- MODULE Buffer -------------------------------
(***************************************************************************)
(* Implementation-shaped, timed specification of aiuti.asyncio.            *)
(* BufferAsyncCalls (buffer_until_timeout) on its own loop, after the      *)
(* repairs 51aad17 / 12daa35: _put, _waiter/_process_queue (with its       *)
(* loaders: every submission is a producer that _load_inputs drains -      *)
(* immediately for a plain call, after a delay for an awaitable, yielding  *)
(* one element, none (empty iterable) or failing), _run_func, wait().      *)
(* `now` advances only when nothing is runnable on the loop (Tick).        *)
(* The contract monitor BufferContract is composed in (variable mon): the  *)
(* clauses of C03, C07 and C08 - including the timing clauses C08_Quiet /  *)
(* C08_Together - are invariants of this model for every arrival pattern,  *)
(* producer kind, wait() placement and failure set within the constants.   *)
(*                                                                         *)
(* Shutdowns = TRUE adds the loop shutting down at any instant: the         *)
(* background task is cancelled (C07: it always terminates).  CancelAware  *)
(* = FALSE models the code before repair 51aad17 (the task takes its own   *)
(* cancellation for wait()'s "flush now" signal, _run_func swallows it):   *)
(* used by the witness configuration W_D3 only.                            *)
(* ClearInputs = FALSE models the code before repair 12daa35 (the set of   *)
(* collected inputs survives a successful call) together with Foreign =    *)
(* TRUE (another thread's event.clear() may fall between the successful    *)
(* call and the re-check): used by the witness configuration only.         *)
(***************************************************************************)
EXTENDS BufferContract, SequencesExt

CONSTANTS Elems,        \* 1..N : the submissions (= their one argument), made in this order
          KindOf,       \* x -> "call" (plain call) | "await" (awaitable, result after LoadOf[x] ticks) |
                        \*      "afail" (awaitable that fails after LoadOf[x] ticks) | "empty" (map of an empty list)
          LoadOf,       \* x -> ticks the producer takes once it is being drained
          TAU, Dur,     \* timeout and function duration in ticks
          FailSet,      \* invocation numbers that raise
          MaxTime,      \* submissions happen at ticks 0..MaxTime
          Waits,        \* set of wait ids; CancelOf[w] says wait(cancel=...)
          CancelOf,
          Foreign, ClearInputs,
          Shutdowns, CancelAware

VARIABLES now, nsub, q, unfinished, flag, ppc, inputs, gens, getting, func, wpc, mon, fclear, shut, landing

vars == <<now, nsub, q, unfinished, flag, ppc, inputs, gens, getting, func, wpc, mon, fclear, shut, landing>>

Emit(m, e) == MStep(m, e @@ [t |-> now, n |-> 0], 0)
NoGens == [x \in {} |-> 0]

Init ==
    /\ now = 0 /\ nsub = 0
    /\ q = <<>> /\ unfinished = 0
    /\ flag = TRUE
    /\ ppc = "first"
    /\ inputs = {}
    /\ gens = NoGens                     \* producers being drained -> time they finish
    /\ getting = [st |-> "none", deadline |-> 0, item |-> 0]
    /\ func = [n |-> 0, until |-> 0, S |-> {}]
    /\ wpc = [w \in Waits |-> "new"]
    /\ fclear = 0
    /\ landing = <<>>                   \* submissions whose call_soon_threadsafe(q.put_nowait, ...) has not run yet
    /\ shut = "no"                      \* "no" | "begun" | "done" (task terminated) | "survived"
    /\ mon = MStep(MInit, [e |-> "Config", tau |-> TAU, t |-> 0, n |-> 0], 0)

\* ---------------------------------------------------------------- submissions
FElem == Cardinality(Elems) + 1          \* the foreign thread's plain call
Kind(x) == IF x = FElem THEN "call" ELSE KindOf[x]
Load(x) == IF x = FElem THEN 0 ELSE LoadOf[x]
Imm(x) == Kind(x) \in {"call", "empty"}
KindName(x) == CASE Kind(x) = "call" -> "call" [] Kind(x) = "empty" -> "map_list" [] OTHER -> "await"

Submit ==        \* buffer(x) / buffer.await_(aw) / buffer.map([]) from the loop's own thread: event.clear(); put on the queue
    /\ nsub < Cardinality(Elems) /\ now <= MaxTime /\ ppc # "check" /\ shut = "no"
    /\ LET x == nsub + 1
           m1 == Emit(mon, [e |-> "Submit", id |-> x, kind |-> KindName(x), thr |-> "L1", imm |-> Imm(x)]) IN
       /\ nsub' = x
       /\ flag' = FALSE
       /\ landing' = Append(landing, x)     \* _put: event.clear(); loop.call_soon_threadsafe(q.put_nowait, iterable)
       /\ mon' = CASE Kind(x) = "call" -> Emit(Emit(m1, [e |-> "Produced", id |-> x, x |-> x]), [e |-> "ProducerDone", id |-> x])
                   [] Kind(x) = "empty" -> Emit(m1, [e |-> "ProducerDone", id |-> x])
                   [] OTHER -> m1
    /\ UNCHANGED <<now, q, unfinished, ppc, inputs, gens, getting, func, wpc, fclear, shut>>

PutLands ==      \* the scheduled q.put_nowait runs in a later iteration of the loop
    /\ landing # <<>> /\ ppc # "check"
    /\ q' = Append(q, Head(landing))
    /\ unfinished' = unfinished + 1
    /\ landing' = Tail(landing)
    /\ UNCHANGED <<now, nsub, flag, ppc, inputs, gens, getting, func, wpc, mon, fclear, shut>>

ForeignClear ==  \* another thread is inside _put(): its event.clear() lands at an arbitrary point ...
    /\ Foreign /\ fclear = 0
    /\ fclear' = 1
    /\ flag' = FALSE
    /\ mon' = Emit(Emit(Emit(mon, [e |-> "Submit", id |-> FElem, kind |-> "call", thr |-> "F1", imm |-> TRUE]),
                        [e |-> "Produced", id |-> FElem, x |-> FElem]), [e |-> "ProducerDone", id |-> FElem])
    /\ UNCHANGED <<now, nsub, q, unfinished, ppc, inputs, gens, getting, func, wpc, shut, landing>>

ForeignPut ==    \* ... and its call_soon_threadsafe(q.put_nowait) runs on the loop a little later
    /\ fclear = 1 /\ ppc # "check"
    /\ fclear' = 2
    /\ q' = Append(q, FElem)
    /\ unfinished' = unfinished + 1
    /\ UNCHANGED <<now, nsub, flag, ppc, inputs, gens, getting, func, wpc, mon, shut, landing>>

\* ---------------------------------------------------------------- _process_queue
Start(xs) == [x \in xs |-> now + Load(x)]      \* the producers start running when _load_inputs iterates them
Arm == [st |-> "pending", deadline |-> now + TAU, item |-> 0]

PFirst ==        \* first q.get(): block until an item appears; event.clear(); task_done(); its loader is kept for the gather
    /\ ppc = "first" /\ q # <<>>
    /\ gens' = [x \in {Head(q)} |-> 0]         \* (not started yet: see PDrain)
    /\ q' = Tail(q) /\ unfinished' = unfinished - 1
    /\ flag' = FALSE
    /\ ppc' = "drain"
    /\ UNCHANGED <<now, nsub, inputs, getting, func, wpc, mon, fclear, shut, landing>>

PDrain ==        \* take everything queued (task_done each), arm the quiet timer (wait_for(q.get(), timeout)), gather the loaders
    /\ ppc = "drain"
    /\ gens' = Start(DOMAIN gens \cup SeqToSet(q))
    /\ unfinished' = unfinished - Len(q)
    /\ q' = <<>>
    /\ getting' = Arm                  \* (armed *before* the known producers are drained)
    /\ ppc' = "loading"
    /\ UNCHANGED <<now, nsub, flag, inputs, func, wpc, mon, fclear, shut, landing>>

LoaderDone(x) == \* one producer is exhausted (or fails: logged and ignored): its element, if any, joins the inputs
    /\ ppc \in {"loading", "load1"} /\ x \in DOMAIN gens /\ gens[x] <= now
    /\ gens' = [y \in DOMAIN gens \ {x} |-> gens[y]]
    /\ inputs' = IF Kind(x) \in {"call", "await"} THEN inputs \cup {x} ELSE inputs
    /\ mon' = CASE Kind(x) = "await" -> Emit(Emit(mon, [e |-> "Produced", id |-> x, x |-> x]), [e |-> "ProducerDone", id |-> x])
                [] Kind(x) = "afail" -> Emit(mon, [e |-> "ProducerFailed", id |-> x])
                [] OTHER -> mon
    /\ UNCHANGED <<now, nsub, q, unfinished, flag, ppc, getting, func, wpc, fclear, shut, landing>>

PLoaded ==       \* gather(*input_gens) is done: now wait for the armed q.get()
    /\ ppc = "loading" /\ DOMAIN gens = {}
    /\ ppc' = "armed"
    /\ UNCHANGED <<now, nsub, q, unfinished, flag, inputs, gens, getting, func, wpc, mon, fclear, shut, landing>>

GetTakes ==      \* the armed q.get() obtains a new item before the timeout (also while the loaders are still running)
    /\ getting.st = "pending" /\ q # <<>> /\ ppc \in {"loading", "armed"}
    /\ getting' = [getting EXCEPT !.st = "got", !.item = Head(q)]
    /\ q' = Tail(q)
    /\ UNCHANGED <<now, nsub, unfinished, flag, ppc, inputs, gens, func, wpc, mon, fclear, shut, landing>>

GetTimeout ==    \* wait_for gives up (noticed by _process_queue only once it awaits the task)
    /\ getting.st = "pending" /\ getting.deadline <= now /\ ppc \in {"loading", "armed"}
    \* (at an exact tie between the timer and an arrival either may win: the queue need not be empty)
    /\ getting' = [getting EXCEPT !.st = "timeout"]
    /\ UNCHANGED <<now, nsub, q, unfinished, flag, ppc, inputs, gens, func, wpc, mon, fclear, shut, landing>>

PGot ==          \* await _load_inputs(await self._getting): drain the new item's producer on its own
    /\ ppc = "armed" /\ getting.st = "got"
    /\ gens' = Start({getting.item})
    /\ getting' = [getting EXCEPT !.st = "none", !.item = 0]
    /\ ppc' = "load1"
    /\ UNCHANGED <<now, nsub, q, unfinished, flag, inputs, func, wpc, mon, fclear, shut, landing>>

PLoad1Done ==    \* ... then q.task_done() and round again
    /\ ppc = "load1" /\ DOMAIN gens = {}
    /\ unfinished' = unfinished - 1
    /\ ppc' = "drain"
    /\ UNCHANGED <<now, nsub, q, flag, inputs, gens, getting, func, wpc, mon, fclear, shut, landing>>

\* event.set() resolves the futures of everybody suspended in event.wait(): they return when they are scheduled,
\* whether or not the event has been cleared again by then
Woken == [w \in Waits |-> IF wpc[w] = "flag" THEN "woken" ELSE wpc[w]]

StartFunc ==     \* timeout or cancelled by wait(): _run_func(inputs)
    /\ ppc = "armed" /\ getting.st \in {"timeout", "cancelled"} /\ shut # "doomed"
    /\ getting' = [getting EXCEPT !.st = "none"]
    /\ IF inputs = {}
       THEN /\ flag' = TRUE /\ wpc' = Woken /\ ppc' = "check" /\ UNCHANGED <<func, mon>>
       ELSE /\ func' = [n |-> func.n + 1, until |-> now + Dur, S |-> inputs]
            /\ mon' = Emit(mon, [e |-> "FuncStart", n |-> func.n + 1, S |-> SetToSeq(inputs)])
            /\ ppc' = "run" /\ UNCHANGED <<flag, wpc>>
    /\ UNCHANGED <<now, nsub, q, unfinished, inputs, gens, fclear, shut, landing>>

EndFunc ==       \* the wrapped function returns or raises
    /\ ppc = "run" /\ func.until <= now
    /\ IF func.n \in FailSet
       THEN /\ mon' = Emit(mon, [e |-> "FuncEnd", n |-> func.n, how |-> "fail"])
            /\ UNCHANGED <<flag, inputs, wpc>>
       ELSE /\ mon' = Emit(mon, [e |-> "FuncEnd", n |-> func.n, how |-> "ok"])
            /\ flag' = TRUE /\ wpc' = Woken
            /\ inputs' = IF ClearInputs THEN {} ELSE inputs
    /\ ppc' = "check"
    /\ UNCHANGED <<now, nsub, q, unfinished, gens, getting, func, fclear, shut, landing>>

PCheck ==        \* while not self.event.is_set(): ...   /  return and start over
    /\ ppc = "check"
    /\ ppc' = IF flag THEN "first" ELSE "drain"
    /\ inputs' = IF flag THEN {} ELSE inputs      \* a new _process_queue() starts from an empty set
    /\ UNCHANGED <<now, nsub, q, unfinished, flag, gens, getting, func, wpc, mon, fclear, shut, landing>>

\* ---------------------------------------------------------------- wait()
WaitCall(w) ==
    /\ wpc[w] = "new" /\ now <= MaxTime + TAU /\ ppc # "check" /\ shut = "no"
    /\ wpc' = [wpc EXCEPT ![w] = "join"]
    /\ mon' = Emit(mon, [e |-> "WaitCall", w |-> w, cancel |-> CancelOf[w], thr |-> "L1"])
    /\ UNCHANGED <<now, nsub, q, unfinished, flag, ppc, inputs, gens, getting, func, fclear, shut, landing>>

WaitJoin(w) ==   \* await q.join(): every queued item was taken (and marked done).  The loop runs its callbacks in
                 \* FIFO order: the puts scheduled by earlier submissions have landed before the join task first runs
    /\ wpc[w] = "join" /\ unfinished = 0 /\ q = <<>> /\ landing = <<>>
    /\ wpc' = [wpc EXCEPT ![w] = "kick"]
    /\ UNCHANGED <<now, nsub, q, unfinished, flag, ppc, inputs, gens, getting, func, mon, fclear, shut, landing>>

WaitKick(w) ==   \* if cancel and the quiet timer is pending: cancel it (flush now)
    /\ wpc[w] = "kick" /\ ppc # "drain"          \* the sleep(0) lets _process_queue pull what is queued
    /\ wpc' = [wpc EXCEPT ![w] = "flag"]
    /\ getting' = IF CancelOf[w] /\ getting.st = "pending" /\ ppc \in {"armed", "loading"}
                  THEN [getting EXCEPT !.st = "cancelled"] ELSE getting
    /\ UNCHANGED <<now, nsub, q, unfinished, flag, ppc, inputs, gens, func, mon, fclear, shut, landing>>

WaitRet(w) ==    \* await self.event.wait(): the event is set already, or this waiter was woken by a set()
    /\ (wpc[w] = "flag" /\ flag) \/ wpc[w] = "woken"
    /\ ppc \notin {"check"}
    /\ wpc' = [wpc EXCEPT ![w] = "done"]
    /\ mon' = Emit(mon, [e |-> "WaitRet", w |-> w])
    /\ UNCHANGED <<now, nsub, q, unfinished, flag, ppc, inputs, gens, getting, func, fclear, shut, landing>>

\* ---------------------------------------------------------------- loop shutdown
ShutdownReq ==   \* the loop shuts down: asyncio cancels every task - the background task and the pending wait()s
    /\ Shutdowns /\ shut = "no" /\ ppc # "check"
    /\ shut' = "begun"
    /\ wpc' = [w \in Waits |-> IF wpc[w] \in {"new", "done"} THEN wpc[w] ELSE "cancelled"]
    /\ mon' = Emit(mon, [e |-> "Shutdown"])
    /\ UNCHANGED <<now, nsub, q, unfinished, flag, ppc, inputs, gens, getting, func, fclear, landing>>

ShutdownEffect == \* the CancelledError is delivered at the await the task is suspended in
    /\ shut = "begun"
    /\ IF ppc = "load1"
       THEN \* suspended inside `await _load_inputs(item)`: its `except BaseException` logs and swallows the task's
            \* own CancelledError together with the producer (whose element is lost).  The task goes on; since the
            \* cancellation request stays recorded (Task.cancelling()) it ends at the next timeout / flush
            \* instead of calling the function ("doomed").  Before repair 51aad17 nothing ever notices.
            /\ shut' = IF CancelAware THEN "doomed" ELSE "survived"
            /\ gens' = NoGens
            /\ UNCHANGED <<ppc, getting, flag, mon>>
       ELSE IF CancelAware \/ ppc \notin {"armed", "run"}
       THEN \* q.get(), gather(): the exception propagates; armed / running: re-raised because
            \* Task.cancelling() says the task itself is being cancelled (repair 51aad17)
            /\ ppc' = "dead" /\ shut' = "done"
            /\ mon' = Emit(IF ppc = "run" THEN Emit(mon, [e |-> "FuncEnd", n |-> func.n, how |-> "cancel"]) ELSE mon,
                           [e |-> "ShutdownDone"])
            /\ UNCHANGED <<getting, flag, gens>>
       ELSE \* before the repair: while armed the cancellation is taken for wait()'s "flush now"; while the
            \* function runs it is swallowed as a failed call ("retrying"): the task lives on
            /\ shut' = "survived"
            /\ UNCHANGED gens
            /\ IF ppc = "armed"
               THEN /\ getting' = [getting EXCEPT !.st = "cancelled"] /\ UNCHANGED <<ppc, mon, flag>>
               ELSE /\ mon' = Emit(mon, [e |-> "FuncEnd", n |-> func.n, how |-> "cancel"])
                    /\ ppc' = "check" /\ UNCHANGED <<getting, flag>>
    /\ UNCHANGED <<now, nsub, q, unfinished, inputs, func, wpc, fclear, landing>>

DoomedEnd ==     \* the timer fires / wait() flushes after a swallowed cancellation: `if _current_task_cancelling(): raise`
    /\ shut = "doomed" /\ ppc = "armed" /\ getting.st \in {"timeout", "cancelled"}
    /\ ppc' = "dead" /\ shut' = "done"
    /\ mon' = Emit(mon, [e |-> "ShutdownDone"])
    /\ UNCHANGED <<now, nsub, q, unfinished, flag, inputs, gens, getting, func, wpc, fclear, landing>>

\* ---------------------------------------------------------------- time
Urgent == \/ shut = "begun"
          \/ landing # <<>>
          \/ ppc = "first" /\ q # <<>>
          \/ fclear = 1
          \/ ppc \in {"drain", "check"}
          \/ ppc \in {"loading", "load1"} /\ (DOMAIN gens = {} \/ \E x \in DOMAIN gens : gens[x] <= now)
          \/ ppc \in {"loading", "armed"} /\ getting.st = "pending" /\ (q # <<>> \/ getting.deadline <= now)
          \/ ppc = "armed" /\ getting.st \in {"got", "timeout", "cancelled"}
          \/ ppc = "run" /\ func.until <= now
          \/ \E w \in Waits : \/ wpc[w] = "join" /\ unfinished = 0 /\ q = <<>> /\ landing = <<>>
                              \/ wpc[w] = "kick" /\ ppc # "drain"
                              \/ ((wpc[w] = "flag" /\ flag) \/ wpc[w] = "woken") /\ ppc # "check"
MaxLoad == CHOOSE m \in {LoadOf[x] : x \in Elems} \cup {0} : \A x \in Elems : LoadOf[x] <= m
Horizon == MaxTime + (Cardinality(FailSet) + 3) * (TAU + Dur + MaxLoad + 1)
Tick == /\ ~Urgent /\ now < Horizon
        /\ (now < MaxTime \/ shut # "no" \/ (nsub = Cardinality(Elems) /\ (~Foreign \/ fclear = 2)))
        /\ now' = now + 1
        /\ UNCHANGED <<nsub, q, unfinished, flag, ppc, inputs, gens, getting, func, wpc, mon, fclear, shut, landing>>

Settled == /\ shut = "no" /\ nsub = Cardinality(Elems) /\ q = <<>> /\ landing = <<>> /\ ppc = "first" /\ flag /\ fclear # 1
           /\ \A w \in Waits : wpc[w] \in {"new", "done"}
Finish == (Settled \/ shut # "no") /\ now = Horizon /\ UNCHANGED vars

Next == \/ Submit \/ PutLands \/ ForeignClear \/ ForeignPut \/ PFirst \/ PDrain \/ PLoaded \/ GetTakes \/ GetTimeout \/ PGot
        \/ PLoad1Done \/ StartFunc \/ EndFunc \/ PCheck
        \/ \E x \in Elems \cup {FElem} : LoaderDone(x)
        \/ \E w \in Waits : WaitCall(w) \/ WaitJoin(w) \/ WaitKick(w) \/ WaitRet(w)
        \/ ShutdownReq \/ ShutdownEffect \/ DoomedEnd
        \/ Tick \/ Finish
Spec == Init /\ [][Next]_vars

\* ---------------------------------------------------------------- properties
Inv_C03 == mon.bad["C03"] = Ok
Inv_C07 == mon.bad["C07"] = Ok
Inv_C08 == mon.bad["C08"] = Ok
\* everything produced has been delivered in a successful call by the horizon (C03_AllDelivered, C07_Returns)
DeliveredAtHorizon == (now = Horizon /\ ~Urgent /\ shut = "no") =>
                        /\ (DOMAIN mon.prod) \subseteq mon.okset
                        /\ nsub = Cardinality(Elems) => Settled \/ \E w \in Waits : wpc[w] = "new"
NoWaitStuck == (now = Horizon /\ ~Urgent /\ shut = "no") => \A w \in Waits : wpc[w] \in {"new", "done"}
\* cancelling the background task, as loop shutdown does, always terminates it (C07)
ShutdownTerminates == shut # "survived"
ShutdownCompletes == (now = Horizon /\ ~Urgent) => shut \notin {"begun", "doomed"}
\* vacuity witnesses
NeverTwoCalls == func.n < 2
NeverFlush == \A w \in Waits : ~(wpc[w] = "flag" /\ getting.st = "cancelled")
NeverBurst == \A i \in DOMAIN mon.sub : TRUE /\ Cardinality(func.S) < 2
NeverSlowLoad == ~(ppc = "loading" /\ getting.st \in {"got", "timeout"})
=============================================================================
