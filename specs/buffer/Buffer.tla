------------------------------- MODULE Buffer -------------------------------
(***************************************************************************)
(* Implementation-shaped, timed specification of aiuti.asyncio.            *)
(* BufferAsyncCalls (buffer_until_timeout) on its own loop, for immediate  *)
(* arguments (plain calls), after the repairs 51aad17 / 12daa35:           *)
(*   _put, _waiter/_process_queue, _run_func, wait().                      *)
(* `now` advances only when nothing is runnable on the loop (Tick).        *)
(* The contract monitor BufferContract is composed in (variable mon): the  *)
(* clauses of C03, C07 and C08 - including the timing clauses C08_Quiet /  *)
(* C08_Together - are invariants of this model for every arrival pattern,  *)
(* wait() placement and failure set within the constants.                  *)
(*                                                                         *)
(* ClearInputs = FALSE models the code before repair 12daa35 (the set of   *)
(* collected inputs survives a successful call) together with Foreign =    *)
(* TRUE (another thread's event.clear() may fall between the successful    *)
(* call and the re-check): used by the witness configuration only.         *)
(***************************************************************************)
EXTENDS BufferContract, SequencesExt

CONSTANTS Elems,        \* 1..N : the arguments, submitted in this order
          TAU, Dur,     \* timeout and function duration in ticks
          FailSet,      \* invocation numbers that raise
          MaxTime,      \* submissions happen at ticks 0..MaxTime
          Waits,        \* set of wait ids; CancelOf[w] says wait(cancel=...)
          CancelOf,
          Foreign, ClearInputs

VARIABLES now, nsub, q, unfinished, flag, ppc, inputs, getting, func, wpc, mon, fclear

vars == <<now, nsub, q, unfinished, flag, ppc, inputs, getting, func, wpc, mon, fclear>>

Emit(m, e) == MStep(m, e @@ [t |-> now, n |-> 0], 0)

Init ==
    /\ now = 0 /\ nsub = 0
    /\ q = <<>> /\ unfinished = 0
    /\ flag = TRUE
    /\ ppc = "first"
    /\ inputs = {}
    /\ getting = [st |-> "none", deadline |-> 0]
    /\ func = [n |-> 0, until |-> 0, S |-> {}]
    /\ wpc = [w \in Waits |-> "new"]
    /\ fclear = 0
    /\ mon = MStep(MInit, [e |-> "Config", tau |-> TAU, t |-> 0, n |-> 0], 0)

\* ---------------------------------------------------------------- submissions
Submit ==        \* buffer(x) from the loop's own thread: event.clear(); put on the queue
    /\ nsub < Cardinality(Elems) /\ now <= MaxTime /\ ppc # "check"
    /\ LET x == nsub + 1 IN
       /\ nsub' = x
       /\ flag' = FALSE
       /\ q' = Append(q, x)
       /\ unfinished' = unfinished + 1
       /\ mon' = Emit(Emit(Emit(mon, [e |-> "Submit", id |-> x, kind |-> "call", thr |-> "L1", imm |-> TRUE]),
                           [e |-> "Produced", id |-> x, x |-> x]), [e |-> "ProducerDone", id |-> x])
    /\ UNCHANGED <<now, ppc, inputs, getting, func, wpc, fclear>>

FElem == Cardinality(Elems) + 1
ForeignClear ==  \* another thread is inside _put(): its event.clear() lands at an arbitrary point ...
    /\ Foreign /\ fclear = 0
    /\ fclear' = 1
    /\ flag' = FALSE
    /\ mon' = Emit(Emit(Emit(mon, [e |-> "Submit", id |-> FElem, kind |-> "call", thr |-> "F1", imm |-> TRUE]),
                        [e |-> "Produced", id |-> FElem, x |-> FElem]), [e |-> "ProducerDone", id |-> FElem])
    /\ UNCHANGED <<now, nsub, q, unfinished, ppc, inputs, getting, func, wpc>>

ForeignPut ==    \* ... and its call_soon_threadsafe(q.put_nowait) runs on the loop a little later
    /\ fclear = 1 /\ ppc # "check"
    /\ fclear' = 2
    /\ q' = Append(q, FElem)
    /\ unfinished' = unfinished + 1
    /\ UNCHANGED <<now, nsub, flag, ppc, inputs, getting, func, wpc, mon>>

\* ---------------------------------------------------------------- _process_queue
PFirst ==        \* first q.get(): block until an item appears; event.clear(); task_done()
    /\ ppc = "first" /\ q # <<>>
    /\ inputs' = {Head(q)}
    /\ q' = Tail(q) /\ unfinished' = unfinished - 1
    /\ flag' = FALSE
    /\ ppc' = "drain"
    /\ UNCHANGED <<now, nsub, getting, func, wpc, mon, fclear>>

PDrain ==        \* take everything queued, arm the quiet timer (wait_for(q.get(), timeout)), load the inputs
    /\ ppc = "drain"
    /\ inputs' = inputs \cup SeqToSet(q)
    /\ unfinished' = unfinished - Len(q)
    /\ q' = <<>>
    /\ getting' = [st |-> "pending", deadline |-> now + TAU]
    /\ ppc' = "armed"
    /\ UNCHANGED <<now, nsub, flag, func, wpc, mon, fclear>>

PGot ==          \* the armed q.get() delivers a new item before the timeout
    /\ ppc = "armed" /\ getting.st = "pending" /\ q # <<>>
    /\ inputs' = inputs \cup {Head(q)}
    /\ q' = Tail(q) /\ unfinished' = unfinished - 1
    /\ getting' = [getting EXCEPT !.st = "none"]
    /\ ppc' = "drain"
    /\ UNCHANGED <<now, nsub, flag, func, wpc, mon, fclear>>

StartFunc ==     \* timeout or cancelled by wait(): _run_func(inputs)
    /\ ppc = "armed"
    \* (at an exact tie between the timer and an arrival either may win: the queue need not be empty)
    /\ \/ getting.st = "pending" /\ getting.deadline <= now
       \/ getting.st = "cancelled"
    /\ getting' = [getting EXCEPT !.st = "none"]
    /\ IF inputs = {}
       THEN /\ flag' = TRUE /\ ppc' = "check" /\ UNCHANGED <<func, mon>>
       ELSE /\ func' = [n |-> func.n + 1, until |-> now + Dur, S |-> inputs]
            /\ mon' = Emit(mon, [e |-> "FuncStart", n |-> func.n + 1, S |-> SetToSeq(inputs)])
            /\ ppc' = "run" /\ UNCHANGED flag
    /\ UNCHANGED <<now, nsub, q, unfinished, inputs, wpc, fclear>>

EndFunc ==       \* the wrapped function returns or raises
    /\ ppc = "run" /\ func.until <= now
    /\ IF func.n \in FailSet
       THEN /\ mon' = Emit(mon, [e |-> "FuncEnd", n |-> func.n, how |-> "fail"])
            /\ UNCHANGED <<flag, inputs>>
       ELSE /\ mon' = Emit(mon, [e |-> "FuncEnd", n |-> func.n, how |-> "ok"])
            /\ flag' = TRUE
            /\ inputs' = IF ClearInputs THEN {} ELSE inputs
    /\ ppc' = "check"
    /\ UNCHANGED <<now, nsub, q, unfinished, getting, func, wpc, fclear>>

PCheck ==        \* while not self.event.is_set(): ...   /  return and start over
    /\ ppc = "check"
    /\ ppc' = IF flag THEN "first" ELSE "drain"
    /\ inputs' = IF flag THEN {} ELSE inputs      \* a new _process_queue() starts from an empty set
    /\ UNCHANGED <<now, nsub, q, unfinished, flag, getting, func, wpc, mon, fclear>>

\* ---------------------------------------------------------------- wait()
WaitCall(w) ==
    /\ wpc[w] = "new" /\ now <= MaxTime + TAU /\ ppc # "check"
    /\ wpc' = [wpc EXCEPT ![w] = "join"]
    /\ mon' = Emit(mon, [e |-> "WaitCall", w |-> w, cancel |-> CancelOf[w], thr |-> "L1"])
    /\ UNCHANGED <<now, nsub, q, unfinished, flag, ppc, inputs, getting, func, fclear>>

WaitJoin(w) ==   \* await q.join(): every queued item was taken
    /\ wpc[w] = "join" /\ unfinished = 0 /\ q = <<>>
    /\ wpc' = [wpc EXCEPT ![w] = "kick"]
    /\ UNCHANGED <<now, nsub, q, unfinished, flag, ppc, inputs, getting, func, mon, fclear>>

WaitKick(w) ==   \* if cancel and the quiet timer is pending: cancel it (flush now)
    /\ wpc[w] = "kick" /\ ppc # "drain"          \* the sleep(0) lets _process_queue pull what is queued
    /\ wpc' = [wpc EXCEPT ![w] = "flag"]
    /\ getting' = IF CancelOf[w] /\ getting.st = "pending" /\ ppc = "armed"
                  THEN [getting EXCEPT !.st = "cancelled"] ELSE getting
    /\ UNCHANGED <<now, nsub, q, unfinished, flag, ppc, inputs, func, mon, fclear>>

WaitRet(w) ==    \* await self.event.wait()
    /\ wpc[w] = "flag" /\ flag /\ ppc \notin {"check"}
    /\ wpc' = [wpc EXCEPT ![w] = "done"]
    /\ mon' = Emit(mon, [e |-> "WaitRet", w |-> w])
    /\ UNCHANGED <<now, nsub, q, unfinished, flag, ppc, inputs, getting, func, fclear>>

\* ---------------------------------------------------------------- time
Urgent == \/ ppc = "first" /\ q # <<>>
          \/ fclear = 1
          \/ ppc \in {"drain", "check"}
          \/ ppc = "armed" /\ (q # <<>> \/ getting.st = "cancelled" \/ getting.deadline <= now)
          \/ ppc = "run" /\ func.until <= now
          \/ \E w \in Waits : \/ wpc[w] = "join" /\ unfinished = 0 /\ q = <<>>
                              \/ wpc[w] = "kick" /\ ppc # "drain"
                              \/ wpc[w] = "flag" /\ flag /\ ppc # "check"
Horizon == MaxTime + (Cardinality(FailSet) + 3) * (TAU + Dur + 1)
Tick == /\ ~Urgent /\ now < Horizon
        /\ (now < MaxTime \/ (nsub = Cardinality(Elems) /\ (~Foreign \/ fclear = 2)))
        /\ now' = now + 1
        /\ UNCHANGED <<nsub, q, unfinished, flag, ppc, inputs, getting, func, wpc, mon, fclear>>

Settled == /\ nsub = Cardinality(Elems) /\ q = <<>> /\ ppc = "first" /\ flag /\ fclear # 1
           /\ \A w \in Waits : wpc[w] \in {"new", "done"}
Finish == Settled /\ now = Horizon /\ UNCHANGED vars

Next == \/ Submit \/ ForeignClear \/ ForeignPut \/ PFirst \/ PDrain \/ PGot \/ StartFunc \/ EndFunc \/ PCheck
        \/ \E w \in Waits : WaitCall(w) \/ WaitJoin(w) \/ WaitKick(w) \/ WaitRet(w)
        \/ Tick \/ Finish
Spec == Init /\ [][Next]_vars

\* ---------------------------------------------------------------- properties
Inv_C03 == mon.bad["C03"] = Ok
Inv_C07 == mon.bad["C07"] = Ok
Inv_C08 == mon.bad["C08"] = Ok
\* everything submitted has been delivered in a successful call by the horizon (C03_AllDelivered, C07_Returns)
DeliveredAtHorizon == (now = Horizon /\ ~Urgent) =>
                        /\ (DOMAIN mon.prod) \subseteq mon.okset
                        /\ nsub = Cardinality(Elems) => Settled \/ \E w \in Waits : wpc[w] = "new"
NoWaitStuck == (now = Horizon /\ ~Urgent) => \A w \in Waits : wpc[w] \in {"new", "done"}
\* vacuity witnesses
NeverTwoCalls == func.n < 2
NeverFlush == \A w \in Waits : ~(wpc[w] = "flag" /\ getting.st = "cancelled")
NeverBurst == \A i \in DOMAIN mon.sub : TRUE /\ Cardinality(func.S) < 2
=============================================================================
