SPECIFICATION Spec
CONSTANTS
 Elems <- E4
 TAU = 2
 Dur = 3
 FailSet = {1}
 MaxTime = 8
 Waits <- NoWaits
 CancelOf <- NoCancel
 Foreign = FALSE
 KindOf <- AllCalls
 LoadOf <- NoLoad
 Shutdowns = FALSE
 CancelAware = TRUE
 ClearInputs = TRUE
INVARIANT Inv_C03
INVARIANT Inv_C07
INVARIANT Inv_C08
INVARIANT DeliveredAtHorizon
INVARIANT NoWaitStuck
