SPECIFICATION Spec
CONSTANTS
 Elems <- E3
 TAU = 2
 Dur = 1
 FailSet = {}
 MaxTime = 4
 Waits <- W1
 CancelOf <- CancelT
 Foreign = FALSE
 KindOf <- AllCalls
 LoadOf <- NoLoad
 Shutdowns = FALSE
 CancelAware = TRUE
 ClearInputs = TRUE
INVARIANT NeverFlush
