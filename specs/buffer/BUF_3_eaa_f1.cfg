SPECIFICATION Spec
CONSTANTS
 Elems <- E3
 TAU = 2
 Dur = 1
 FailSet = {1}
 MaxTime = 4
 Waits <- NoWaits
 CancelOf <- NoCancel
 Foreign = FALSE
 KindOf <- K_eaa
 LoadOf <- L_eaa
 Shutdowns = FALSE
 CancelAware = TRUE
 ClearInputs = TRUE
INVARIANT Inv_C03
INVARIANT Inv_C07
INVARIANT Inv_C08
INVARIANT DeliveredAtHorizon
INVARIANT NoWaitStuck
