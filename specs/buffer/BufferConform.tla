---------------------------- MODULE BufferConform ----------------------------
(***************************************************************************)
(* Implementation conformance (code -> spec) for the buffer: one recorded  *)
(* execution of the real BufferAsyncCalls (plain calls and wait() from the *)
(* loop's own thread) is accepted iff the timed model Buffer.tla has a     *)
(* behaviour emitting the same observable events at the same (scaled)      *)
(* times, with silent processing steps in between, and whose projected     *)
(* state - queue length and the "all processed" flag - equals the state    *)
(* read from the real object at every observable event.                    *)
(* A plain call is three logged events (Submit, Produced, ProducerDone)    *)
(* and one model action; an awaitable's result two (Produced,              *)
(* ProducerDone), an empty map two (Submit, ProducerDone).                 *)
(***************************************************************************)
EXTENDS Buffer, Json, IOUtils

T == JsonDeserialize(IOEnv.TRACE_FILE)

VARIABLES l, sil
cvars == <<vars, l, sil>>

Proj == [q |-> Len(q), flag |-> flag]
Logged(e) == [q |-> e.st.q, flag |-> e.st.flag]
Norm(e) == [f \in (DOMAIN e) \ {"st"} |-> e[f]]
RECURSIVE FoldM(_, _, _)
FoldM(m, a, b) == IF a > b THEN m ELSE FoldM(MStep(m, Norm(T[a]), 0), a + 1, b)

CInit == Init /\ l = 1 /\ sil = 0 /\ TLCSet(1, 0)

Consume(k) == /\ l + k - 1 <= Len(T)
              /\ now = T[l].t
              /\ Next
              /\ mon' # mon
              /\ mon' = FoldM(mon, l, l + k - 1)
              \* the harness logs a submission before the call acts and everything else after the fact
              /\ IF T[l].e \in {"Submit", "FuncEnd"} THEN Proj = Logged(T[l]) ELSE Proj' = Logged(T[l + k - 1])
              /\ l' = l + k /\ sil' = 0
Silent == /\ l <= Len(T)
          /\ sil < 300
          /\ now <= T[l].t
          /\ Next
          /\ mon' = mon /\ vars' # vars
          /\ l' = l /\ sil' = sil + 1
CNext == Consume(1) \/ Consume(2) \/ Consume(3) \/ Silent
Reached == IF l > TLCGet(1) THEN TLCSet(1, l) /\ PrintT(<<"REACHED", 1, l, Len(T) + 1>>) ELSE TRUE
NotYetAccepted == TLCGet(1) <= Len(T)
=============================================================================
