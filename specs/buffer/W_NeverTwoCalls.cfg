SPECIFICATION Spec
CONSTANTS
 Elems <- E3
 TAU = 2
 Dur = 0
 FailSet = {}
 MaxTime = 5
 Waits <- NoWaits
 CancelOf <- NoCancel
 Foreign = FALSE
 KindOf <- AllCalls
 LoadOf <- NoLoad
 Shutdowns = FALSE
 CancelAware = TRUE
 ClearInputs = TRUE
INVARIANT NeverTwoCalls
