SPECIFICATION Spec
CONSTANTS
 Loops <- L3
 Callers <- C3
 LoopOf <- LoopOf_3x1
 MaxInv = 5
 MaxRetry = 2
 OwnMarkerOnly = TRUE
 ForeignCancelRetry = TRUE
 LifeCycles = FALSE
 Cancels = TRUE
 Failures = TRUE
 Timeouts = TRUE
 Resumes = FALSE
 Evictions = FALSE
CONSTRAINT Bound
INVARIANT Inv_C01
INVARIANT Inv_C06
INVARIANT LockDiscipline
INVARIANT MarkerOwner
