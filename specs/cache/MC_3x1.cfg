SPECIFICATION Spec
CONSTANTS
 Loops <- L3
 Callers <- C3
 LoopOf <- LoopOf_3x1
 MaxInv = 5
 MaxRetry = 3
 OwnMarkerOnly = TRUE
 ForeignCancelRetry = TRUE
 LifeCycles = TRUE
 Cancels = TRUE
 Failures = TRUE
 Timeouts = TRUE
 Resumes = FALSE
 Evictions = FALSE
CONSTRAINT Bound
INVARIANT Inv_C01
INVARIANT Inv_C06
INVARIANT LockDiscipline
INVARIANT MarkerOwner
