SPECIFICATION FairSpec
CONSTANTS
 Loops <- L3
 Callers <- C3
 LoopOf <- LoopOf_3x1
 MaxInv = 5
 MaxRetry = 3
 OwnMarkerOnly = TRUE
 ForeignCancelRetry = TRUE
 LifeCycles = FALSE
 Cancels = TRUE
 Failures = TRUE
 Timeouts = FALSE
 Resumes = FALSE
 Evictions = FALSE
PROPERTY Termination
INVARIANT Inv_C01
INVARIANT Inv_C06
