SPECIFICATION Spec
CONSTANTS
 Loops <- L2
 Callers <- C3
 LoopOf <- LoopOf_2x1b
 MaxInv = 5
 MaxRetry = 2
 OwnMarkerOnly = TRUE
 ForeignCancelRetry = TRUE
 LifeCycles = TRUE
 Cancels = TRUE
 Failures = TRUE
 Timeouts = TRUE
 Resumes = TRUE
 Evictions = FALSE
CONSTRAINT Bound
INVARIANT Inv_C06
INVARIANT LockDiscipline
INVARIANT MarkerOwner
