------------------------------- MODULE Cache --------------------------------
(***************************************************************************)
(* Implementation-shaped specification of aiuti.asyncio.threadsafe_async_  *)
(* cache (one key).  One action per critical section / per block of code   *)
(* between two awaits; threads interleave freely at action granularity,    *)
(* tasks of one loop are serialised (cur[l] = the task the loop thread is  *)
(* executing; it is kept while the thread is blocked on the lock).         *)
(*                                                                         *)
(* The contract monitor of CacheContract is composed in (variable mon):    *)
(* every observable action feeds MStep, so the clauses of C01 and C06 are  *)
(* plain invariants of this model.                                         *)
(*                                                                         *)
(* Two constants select the behaviour of the code before the two repairs   *)
(* (used only by the witness configurations that show TLC finds the        *)
(* defects at design level):                                               *)
(*   OwnMarkerOnly = FALSE : the finally-block deletes whatever marker is  *)
(*                           registered (defect D1)                        *)
(*   ForeignCancelRetry = FALSE : a cancelled cross-loop wait is re-raised *)
(*                           to the waiting caller (defect D2)             *)
(***************************************************************************)
EXTENDS CacheContract

CONSTANTS Loops, Callers, LoopOf, MaxInv, MaxRetry,
          OwnMarkerOnly, ForeignCancelRetry, LifeCycles, Cancels, Failures, Timeouts,
          Resumes,       \* BOOLEAN: a loop that stopped with calls pending may be run again (outside C01's histories)
          Evictions      \* BOOLEAN: the caller-supplied mapping may drop the entry at any moment (bounded LRU, TTL, del)

None == "none"          \* no loop
NoC == 0                 \* no caller
NoMarker == [loop |-> None, ev |-> 0]
Key == "a"

VARIABLES
    lstate,     \* loop -> "run" | "stopped" | "drain" | "closed"
    cur,        \* loop -> caller whose task step the loop thread is executing, or None
    pc,         \* caller -> control point
    cache,      \* 0 or the invocation id whose result is cached
    marker,     \* None or [loop, ev]  (events[key])
    lock,       \* holder of event_making_lock or None
    evset,      \* set of asyncio.Event ids that are set
    nev,        \* event id counter
    loc,        \* caller -> [ev, mloop, doc]   locals event / caching_loop / do_caching
    finv,       \* caller -> invocation id of its running computation (0 = none)
    fout,       \* caller -> how its computation ended: "ok" | "raise" | "cancel" | ""
    proxy,      \* caller -> [host, ev, st]  cross-loop wait; st: none|queued|waiting|woken|done|cancelled
    hit,        \* callers the harness cancelled while suspended
    retries,    \* caller -> number of loop-arounds (bounds the model)
    mon         \* contract monitor

vars == <<lstate, cur, pc, cache, marker, lock, evset, nev, loc, finv, fout, proxy, hit, retries, mon>>

L(c) == LoopOf[c]
Alive(l) == lstate[l] \in {"run", "drain"}       \* is_running() and not is_closed()
CanStep(l) == lstate[l] \in {"run", "drain"}

Emit(e) == mon' = MStep(mon, e @@ [t |-> 0, n |-> 0], 0)

\* control points at which a task is suspended (the loop thread is free)
Suspended == {"funcwait", "waiting"}
\* control points that begin a task step when the loop picks the task
Ready(c) ==
    \/ pc[c] = "start"
    \/ pc[c] = "funcwait_ready"
    \/ pc[c] = "cancelled_func"
    \/ pc[c] = "cancelled_wait"
    \/ pc[c] = "wake"

Runs(c) == /\ CanStep(L(c))
           /\ \/ cur[L(c)] = c
              \/ cur[L(c)] = NoC /\ Ready(c)

Keep(c) == cur' = [cur EXCEPT ![L(c)] = c]      \* the step continues
Yield(c) == cur' = [cur EXCEPT ![L(c)] = NoC]  \* the step ends (await / return)

Init ==
    /\ lstate = [l \in Loops |-> "run"]
    /\ cur = [l \in Loops |-> NoC]
    /\ pc = [c \in Callers |-> "start"]
    /\ cache = 0
    /\ marker = NoMarker
    /\ lock = NoC
    /\ evset = {}
    /\ nev = 0
    /\ loc = [c \in Callers |-> [ev |-> 0, mloop |-> None, doc |-> FALSE]]
    /\ finv = [c \in Callers |-> 0]
    /\ fout = [c \in Callers |-> ""]
    /\ proxy = [c \in Callers |-> [host |-> None, ev |-> 0, st |-> "none"]]
    /\ hit = {}
    /\ retries = [c \in Callers |-> 0]
    /\ mon = LET m1 == MInit IN
             [m1 EXCEPT !.running = [l \in Loops |-> TRUE]]

\* ---------------------------------------------------------------- the wrapper

Finish(c, kind, inv, exctype) ==
    /\ pc' = [pc EXCEPT ![c] = "done"]
    /\ Yield(c)
    /\ Emit([e |-> "CallEnd", c |-> c, kind |-> kind, inv |-> inv, exctype |-> exctype])

Call(c) ==       \* line 390-392, first await-free stretch up to the first probe
    /\ pc[c] = "start" /\ Runs(c)
    /\ pc' = [pc EXCEPT ![c] = "probe1"]
    /\ Keep(c)
    /\ Emit([e |-> "CallStart", c |-> c, k |-> Key, loop |-> L(c), tmo |-> -1])
    /\ UNCHANGED <<lstate, cache, marker, lock, evset, nev, loc, finv, fout, proxy, hit, retries>>

Probe1(c) ==     \* 396-399 unlocked probe
    /\ pc[c] = "probe1" /\ Runs(c)
    /\ IF cache # 0
       THEN /\ Finish(c, "val", cache, "")
       ELSE /\ pc' = [pc EXCEPT ![c] = "lock"] /\ Keep(c) /\ UNCHANGED mon
    /\ UNCHANGED <<lstate, cache, marker, lock, evset, nev, loc, finv, fout, proxy, hit, retries>>

AcqLock(c) ==    \* 403 with event_making_lock (the thread blocks, cur stays c)
    /\ pc[c] = "lock" /\ Runs(c) /\ lock = NoC
    /\ lock' = c
    /\ pc' = [pc EXCEPT ![c] = "probe2"]
    /\ Keep(c)
    /\ UNCHANGED <<lstate, cache, marker, evset, nev, loc, finv, fout, proxy, hit, retries, mon>>

Probe2(c) ==     \* 404-407 locked re-probe (return releases the lock)
    /\ pc[c] = "probe2" /\ Runs(c)
    /\ IF cache # 0
       THEN /\ lock' = NoC /\ Finish(c, "val", cache, "")
       ELSE /\ pc' = [pc EXCEPT ![c] = "readmarker"] /\ Keep(c) /\ UNCHANGED <<lock, mon>>
    /\ UNCHANGED <<lstate, cache, marker, evset, nev, loc, finv, fout, proxy, hit, retries>>

ReadMarker(c) == \* 409-424 read the in-flight entry; dead loop => take over
    /\ pc[c] = "readmarker" /\ Runs(c)
    /\ IF marker # NoMarker /\ Alive(marker.loop)
       THEN /\ loc' = [loc EXCEPT ![c] = [ev |-> marker.ev, mloop |-> marker.loop, doc |-> FALSE]]
            /\ UNCHANGED <<marker, nev>>
       ELSE /\ nev' = nev + 1
            /\ marker' = [loop |-> L(c), ev |-> nev + 1]
            /\ loc' = [loc EXCEPT ![c] = [ev |-> nev + 1, mloop |-> L(c), doc |-> TRUE]]
    /\ pc' = [pc EXCEPT ![c] = "unlock"]
    /\ Keep(c)
    /\ UNCHANGED <<lstate, cache, lock, evset, finv, fout, proxy, hit, retries, mon>>

Unlock(c) ==     \* leaving the with-block
    /\ pc[c] = "unlock" /\ Runs(c)
    /\ lock' = NoC
    /\ pc' = [pc EXCEPT ![c] = IF loc[c].doc THEN "callfunc" ELSE "mkwait"]
    /\ Keep(c)
    /\ UNCHANGED <<lstate, cache, marker, evset, nev, loc, finv, fout, proxy, hit, retries, mon>>

\* ---- computing
FuncStart(c) ==  \* 428 await _func(...): the user function is entered
    /\ pc[c] = "callfunc" /\ Runs(c)
    /\ finv' = [finv EXCEPT ![c] = mon.nstart + 1]
    /\ Emit([e |-> "FuncStart", i |-> mon.nstart + 1, k |-> Key, loop |-> L(c), c |-> c])
    /\ \/ pc' = [pc EXCEPT ![c] = "funcwait"] /\ Yield(c)      \* positive duration: suspends
       \/ pc' = [pc EXCEPT ![c] = "funcend"] /\ Keep(c)        \* zero duration: same step
    /\ UNCHANGED <<lstate, cache, marker, lock, evset, nev, loc, fout, proxy, hit, retries>>

FuncDue(c) ==    \* the computation's own timer fires (any time)
    /\ pc[c] = "funcwait"
    /\ pc' = [pc EXCEPT ![c] = "funcwait_ready"]
    /\ UNCHANGED <<lstate, cur, cache, marker, lock, evset, nev, loc, finv, fout, proxy, hit, retries, mon>>

FuncResume(c) ==
    /\ pc[c] = "funcwait_ready" /\ Runs(c)
    /\ pc' = [pc EXCEPT ![c] = "funcend"]
    /\ Keep(c)
    /\ UNCHANGED <<lstate, cache, marker, lock, evset, nev, loc, finv, fout, proxy, hit, retries, mon>>

FuncEnd(c) ==    \* the user function returns or raises
    /\ pc[c] = "funcend" /\ Runs(c)
    /\ \E how \in (IF Failures THEN {"ok", "raise"} ELSE {"ok"}) :
         /\ fout' = [fout EXCEPT ![c] = how]
         /\ Emit([e |-> "FuncEnd", i |-> finv[c], how |-> how])
         /\ pc' = [pc EXCEPT ![c] = IF how = "ok" THEN "store" ELSE "fin_lock"]
    /\ Keep(c)
    /\ UNCHANGED <<lstate, cache, marker, lock, evset, nev, loc, finv, proxy, hit, retries>>

FuncCancelled(c) ==  \* CancelledError is thrown into the suspended computation
    /\ pc[c] = "cancelled_func" /\ Runs(c)
    /\ fout' = [fout EXCEPT ![c] = "cancel"]
    /\ Emit([e |-> "FuncEnd", i |-> finv[c], how |-> "cancel"])
    /\ pc' = [pc EXCEPT ![c] = "fin_lock"]
    /\ Keep(c)
    /\ UNCHANGED <<lstate, cache, marker, lock, evset, nev, loc, finv, proxy, hit, retries>>

Store(c) ==      \* 432 _cache[key] = result
    /\ pc[c] = "store" /\ Runs(c)
    /\ cache' = finv[c]
    /\ pc' = [pc EXCEPT ![c] = "fin_lock"]
    /\ Keep(c)
    /\ UNCHANGED <<lstate, marker, lock, evset, nev, loc, finv, fout, proxy, hit, retries, mon>>

FinAcq(c) ==     \* 434 finally: with event_making_lock
    /\ pc[c] = "fin_lock" /\ Runs(c) /\ lock = NoC
    /\ lock' = c
    /\ pc' = [pc EXCEPT ![c] = "fin_set"]
    /\ Keep(c)
    /\ UNCHANGED <<lstate, cache, marker, evset, nev, loc, finv, fout, proxy, hit, retries, mon>>

FinSet(c) ==     \* 436 event.set(): wakes same-loop waiters and hosted proxy waits
    /\ pc[c] = "fin_set" /\ Runs(c)
    /\ evset' = evset \cup {loc[c].ev}
    /\ proxy' = [d \in Callers |->
                   IF proxy[d].st = "waiting" /\ proxy[d].ev = loc[c].ev
                   THEN [proxy[d] EXCEPT !.st = "woken"] ELSE proxy[d]]
    /\ pc' = [d \in Callers |->
                IF d = c THEN "fin_del"
                ELSE IF pc[d] = "waiting" /\ proxy[d].st = "none" /\ loc[d].ev = loc[c].ev
                     THEN "wake" ELSE pc[d]]
    /\ Keep(c)
    /\ UNCHANGED <<lstate, cache, marker, lock, nev, loc, finv, fout, hit, retries, mon>>

FinDel(c) ==     \* 439 del events[key]
    /\ pc[c] = "fin_del" /\ Runs(c)
    /\ IF OwnMarkerOnly
       THEN /\ marker' = IF marker # NoMarker /\ marker.ev = loc[c].ev THEN NoMarker ELSE marker
            /\ pc' = [pc EXCEPT ![c] = "fin_rel"]
       ELSE \* the code before the repair: delete whatever is there, KeyError if nothing is
            IF marker = NoMarker
            THEN /\ pc' = [pc EXCEPT ![c] = "fin_rel_keyerror"] /\ UNCHANGED marker
            ELSE /\ marker' = NoMarker /\ pc' = [pc EXCEPT ![c] = "fin_rel"]
    /\ Keep(c)
    /\ UNCHANGED <<lstate, cache, lock, evset, nev, loc, finv, fout, proxy, hit, retries, mon>>

FinRel(c) ==     \* leaving the finally's with-block, then return / re-raise
    /\ pc[c] \in {"fin_rel", "fin_rel_keyerror"} /\ Runs(c)
    /\ lock' = NoC
    /\ IF pc[c] = "fin_rel_keyerror" THEN Finish(c, "exc", 0, "KeyError")
       ELSE CASE fout[c] = "ok" -> Finish(c, "val", finv[c], "")
              [] fout[c] = "raise" -> Finish(c, "exc", finv[c], "HExc")
              [] OTHER -> Finish(c, "cancel", 0, "CancelledError")
    /\ UNCHANGED <<lstate, cache, marker, evset, nev, loc, finv, fout, proxy, hit, retries>>

\* ---- waiting
LoopAround(c) == /\ retries' = [retries EXCEPT ![c] = @ + 1]
                 /\ pc' = [pc EXCEPT ![c] = "probe1"]

MkWait(c) ==     \* 444-464: same loop -> wait on the event; other loop -> submit a proxy wait
    /\ pc[c] = "mkwait" /\ Runs(c)
    /\ IF loc[c].mloop = L(c)
       THEN /\ pc' = [pc EXCEPT ![c] = IF loc[c].ev \in evset THEN "wake" ELSE "waiting"]
            /\ Yield(c)
            /\ UNCHANGED <<proxy, retries>>
       ELSE IF lstate[loc[c].mloop] = "closed"
            THEN \* run_coroutine_threadsafe raises RuntimeError: continue
                 /\ LoopAround(c) /\ Keep(c) /\ UNCHANGED proxy
            ELSE /\ proxy' = [proxy EXCEPT ![c] = [host |-> loc[c].mloop, ev |-> loc[c].ev, st |-> "queued"]]
                 /\ pc' = [pc EXCEPT ![c] = "waiting"]
                 /\ Yield(c)
                 /\ UNCHANGED retries
    /\ UNCHANGED <<lstate, cache, marker, lock, evset, nev, loc, finv, fout, hit, mon>>

ProxyStep(c) ==  \* the hosted event.wait() coroutine takes a step on the computing loop
    /\ proxy[c].st \in {"queued", "woken"}
    /\ CanStep(proxy[c].host) /\ cur[proxy[c].host] = NoC
    /\ proxy' = [proxy EXCEPT ![c].st =
                    IF proxy[c].st = "woken" \/ proxy[c].ev \in evset THEN "done" ELSE "waiting"]
    /\ UNCHANGED <<lstate, cur, pc, cache, marker, lock, evset, nev, loc, finv, fout, hit, retries, mon>>

BridgeWake(c) == \* the thread-safe future completes on the waiter's loop
    /\ pc[c] = "waiting" /\ proxy[c].st \in {"done", "cancelled"}
    /\ pc' = [pc EXCEPT ![c] = "wake"]
    /\ UNCHANGED <<lstate, cur, cache, marker, lock, evset, nev, loc, finv, fout, proxy, hit, retries, mon>>

Wake(c) ==       \* the shielded waiter finished: loop around (or foreign cancel)
    /\ pc[c] = "wake" /\ Runs(c)
    /\ IF proxy[c].st = "cancelled" /\ ~ForeignCancelRetry
       THEN /\ Finish(c, "cancel", 0, "CancelledError")
            /\ proxy' = [proxy EXCEPT ![c] = [host |-> None, ev |-> 0, st |-> "none"]]
            /\ UNCHANGED retries
       ELSE /\ LoopAround(c) /\ Keep(c) /\ UNCHANGED mon
            /\ proxy' = [proxy EXCEPT ![c] = [host |-> None, ev |-> 0, st |-> "none"]]
    /\ UNCHANGED <<lstate, cache, marker, lock, evset, nev, loc, finv, fout, hit>>

Timeout60(c) ==  \* the 60 s safety net fires (untimed model: any time while waiting)
    /\ Timeouts
    /\ pc[c] = "waiting"
    /\ pc' = [pc EXCEPT ![c] = "wake"]
    /\ proxy' = [proxy EXCEPT ![c] = IF @.st = "none" THEN @ ELSE [@ EXCEPT !.st = "done"]]
    /\ UNCHANGED <<lstate, cur, cache, marker, lock, evset, nev, loc, finv, fout, hit, retries, mon>>

\* ---- the harness cancels a suspended caller (task.cancel() / wait_for time-out)
CancelCaller(c) ==
    /\ Cancels
    /\ pc[c] \in {"funcwait", "funcwait_ready", "waiting", "wake"} /\ c \notin hit
    /\ hit' = hit \cup {c}
    /\ pc' = [pc EXCEPT ![c] = IF pc[c] \in {"funcwait", "funcwait_ready"} THEN "cancelled_func"
                                 ELSE "cancelled_wait"]
    /\ Emit([e |-> "Cancel", c |-> c])
    /\ UNCHANGED <<lstate, cur, cache, marker, lock, evset, nev, loc, finv, fout, proxy, retries>>

CancelBeforeStart(c) ==  \* the harness cancels a caller task that has not made its call yet: it never calls
    /\ Cancels /\ pc[c] = "start" /\ cur[L(c)] # c /\ c \notin hit
    /\ hit' = hit \cup {c}
    /\ pc' = [pc EXCEPT ![c] = "done"]
    /\ Emit([e |-> "Cancel", c |-> c])
    /\ UNCHANGED <<lstate, cur, cache, marker, lock, evset, nev, loc, finv, fout, proxy, retries>>

WaitCancelled(c) ==  \* CancelledError reaches the waiting caller: cancel the waiter, re-raise
    /\ pc[c] = "cancelled_wait" /\ Runs(c)
    /\ proxy' = [proxy EXCEPT ![c] = [host |-> None, ev |-> 0, st |-> "none"]]
    /\ Finish(c, "cancel", 0, "CancelledError")
    /\ UNCHANGED <<lstate, cache, marker, lock, evset, nev, loc, finv, fout, hit, retries>>

\* ---------------------------------------------------------------- loop life cycle
Unfinished(l) == {c \in Callers : L(c) = l /\ pc[c] # "done"}

LoopStop(l) ==       \* run_until_complete(main) returns (possibly with calls pending)
    /\ LifeCycles
    /\ lstate[l] = "run" /\ cur[l] = NoC
    /\ lstate' = [lstate EXCEPT ![l] = "stopped"]
    /\ Emit([e |-> "LoopStopped", loop |-> l])
    /\ UNCHANGED <<cur, pc, cache, marker, lock, evset, nev, loc, finv, fout, proxy, hit, retries>>

LoopResume(l) ==     \* the thread comes back to its loop (run_until_complete(something_else)): pending calls go on
    /\ Resumes /\ lstate[l] = "stopped"
    /\ lstate' = [lstate EXCEPT ![l] = "run"]
    /\ Emit([e |-> "LoopRunning", loop |-> l])
    /\ UNCHANGED <<cur, pc, cache, marker, lock, evset, nev, loc, finv, fout, proxy, hit, retries>>

LoopShutdown(l) ==   \* asyncio.run's clean-up, first half: every leftover task of the loop is cancelled
    /\ lstate[l] = "stopped"
    /\ lstate' = [lstate EXCEPT ![l] = "cancelled"]
    /\ LET victims == {c \in Unfinished(l) : pc[c] \in {"funcwait", "funcwait_ready", "waiting", "wake", "start"}} IN
       /\ hit' = hit \cup victims
       /\ pc' = [c \in Callers |->
                   IF c \in victims
                   THEN (IF pc[c] \in {"funcwait", "funcwait_ready"} THEN "cancelled_func"
                         ELSE IF pc[c] = "start" THEN "done" ELSE "cancelled_wait")
                   ELSE pc[c]]
       /\ proxy' = [d \in Callers |->
                      IF proxy[d].host = l /\ proxy[d].st \in {"queued", "waiting", "woken"}
                      THEN [proxy[d] EXCEPT !.st = "cancelled"] ELSE proxy[d]]
       /\ mon' = LET RECURSIVE F(_, _)
                     F(m, S) == IF S = {} THEN m
                                ELSE LET x == CHOOSE y \in S : TRUE IN
                                     F(MStep(m, [e |-> "Cancel", c |-> x, t |-> 0, n |-> 0], 0), S \ {x})
                 IN F(mon, victims)
    /\ UNCHANGED <<cur, cache, marker, lock, evset, nev, loc, finv, fout, retries>>

LoopDrainStart(l) == \* ... second half: run_until_complete(gather(cancelled tasks)): the loop runs again
    /\ lstate[l] = "cancelled"
    /\ lstate' = [lstate EXCEPT ![l] = "drain"]
    /\ Emit([e |-> "LoopRunning", loop |-> l])
    /\ UNCHANGED <<cur, pc, cache, marker, lock, evset, nev, loc, finv, fout, proxy, hit, retries>>

LoopDrainDone(l) ==  \* the cancelled tasks are done: the loop stops for good
    /\ lstate[l] = "drain" /\ Unfinished(l) = {} /\ cur[l] = NoC
    /\ lstate' = [lstate EXCEPT ![l] = "drained"]
    /\ Emit([e |-> "LoopStopped", loop |-> l])
    /\ UNCHANGED <<cur, pc, cache, marker, lock, evset, nev, loc, finv, fout, proxy, hit, retries>>

LoopClose(l) ==      \* loop.close() after the drain, or directly (tasks abandoned); or the loop is just left
    /\ lstate[l] \in {"drained", "stopped"}
    /\ lstate' = [lstate EXCEPT ![l] = "closed"]
    /\ Emit([e |-> "LoopAbandoned", loop |-> l])
    /\ UNCHANGED <<cur, pc, cache, marker, lock, evset, nev, loc, finv, fout, proxy, hit, retries>>

\* ---------------------------------------------------------------- next-state relation
Abandoned(c) == lstate[L(c)] \in {"stopped", "cancelled", "drained", "closed"}
AllSettled == \A c \in Callers : pc[c] = "done" \/ Abandoned(c)
Finished == AllSettled /\ \A l \in Loops : lstate[l] \in {"run", "closed"} \/ ~LifeCycles
Done == Finished /\ UNCHANGED vars

CallerStep(c) ==
    \/ Call(c) \/ Probe1(c) \/ AcqLock(c) \/ Probe2(c) \/ ReadMarker(c) \/ Unlock(c)
    \/ FuncStart(c) \/ FuncDue(c) \/ FuncResume(c) \/ FuncEnd(c) \/ FuncCancelled(c)
    \/ Store(c) \/ FinAcq(c) \/ FinSet(c) \/ FinDel(c) \/ FinRel(c)
    \/ MkWait(c) \/ ProxyStep(c) \/ BridgeWake(c) \/ Wake(c) \/ Timeout60(c)
    \/ CancelCaller(c) \/ CancelBeforeStart(c) \/ WaitCancelled(c)

Evict ==         \* the mapping drops the entry (another key pushes it out, it expires, the caller deletes it): no lock is involved
    /\ Evictions /\ cache # 0
    /\ cache' = 0
    /\ UNCHANGED <<lstate, cur, pc, marker, lock, evset, nev, loc, finv, fout, proxy, hit, retries, mon>>

Next == \/ \E c \in Callers : CallerStep(c)
        \/ Evict
        \/ \E l \in Loops : LoopStop(l) \/ LoopResume(l) \/ LoopShutdown(l) \/ LoopDrainStart(l) \/ LoopDrainDone(l) \/ LoopClose(l)
        \/ Done

Spec == Init /\ [][Next]_vars
FairSpec == Spec /\ WF_vars(Next)

\* ---------------------------------------------------------------- properties
Inv_C01 == mon.bad["C01"] = Ok
Inv_C06 == mon.bad["C06"] = Ok
\* with an evicting mapping the once-done clause of C01 does not apply, the single-flight clause still does:
\* an eviction causes a recomputation, never two at once (C14: "exactly one recomputation")
SingleFlightEvenIfEvicting == mon.bad["C01"] = Ok \/ mon.bad["C01"][1] # "C01_SingleFlight"
\* structural facts the code relies on
LockDiscipline == lock # NoC => cur[L(lock)] = lock
MarkerOwner == marker # NoMarker =>
    \/ ~Alive(marker.loop)
    \/ \E c \in Callers : L(c) = marker.loop /\ loc[c].doc /\ loc[c].ev = marker.ev
                          /\ pc[c] \notin {"done", "start", "probe1", "lock", "probe2"}
\* every call whose loop is not abandoned finishes (checked under FairSpec)
Termination == <>[]AllSettled

Bound == mon.nstart <= MaxInv /\ \A c \in Callers : retries[c] <= MaxRetry

\* vacuity witnesses: TLC must be able to reach these situations within the bounds
NoCrossLoopWait == \A c \in Callers : proxy[c].st # "waiting"
NoSecondInvocation == mon.nstart < 2
=============================================================================
