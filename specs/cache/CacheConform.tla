---------------------------- MODULE CacheConform ----------------------------
(***************************************************************************)
(* Implementation conformance (code -> spec) for the cache: a recorded     *)
(* execution of the real code is accepted iff Cache.tla has a behaviour    *)
(* that produces the same observable events in the same order AND, at      *)
(* every observable event, the same projected abstract state as the one    *)
(* read from the implementation's closure at that moment:                  *)
(*     cache filled (invocation id), loop named by the in-flight marker,   *)
(*     event_making_lock held.                                             *)
(* Internal steps of the model (probes, lock acquisition, marker handling, *)
(* proxy hops, the 60 s net, ...) are silent and interleave freely between *)
(* two observable events.  The contract monitor is the glue: an observable *)
(* model step must change the monitor exactly as the logged event does.    *)
(* A rejection is *drift* (the code no longer follows this model), not a   *)
(* property violation; the longest matched prefix is reported.             *)
(***************************************************************************)
EXTENDS Cache, Json, IOUtils

Traces == JsonDeserialize(IOEnv.TRACE_FILE)

VARIABLES tid, l, sil
cvars == <<vars, tid, l, sil>>
MaxSilent == 60

T == Traces[tid]
Proj == [cache |-> cache, mloop |-> marker.loop, lock |-> lock # NoC]
Norm(e) == [f \in (DOMAIN e) \ {"st"} |-> IF f \in {"t", "n"} THEN 0 ELSE e[f]]
RECURSIVE FoldM(_, _, _)
FoldM(m, a, b) == IF a > b THEN m ELSE FoldM(MStep(m, Norm(T[a]), 0), a + 1, b)

CInit == Init /\ tid \in 1..Len(Traces) /\ l = 1 /\ sil = 0 /\ TLCSet(tid, 0)

Consume(k) == /\ l + k - 1 <= Len(T)
              /\ Next
              /\ mon' # mon
              /\ mon' = FoldM(mon, l, l + k - 1)
              /\ Proj' = T[l + k - 1].st
              /\ l' = l + k /\ sil' = 0 /\ UNCHANGED tid
Silent == /\ l <= Len(T)
          /\ sil < MaxSilent
          /\ Next
          /\ mon' = mon /\ vars' # vars
          /\ l' = l /\ sil' = sil + 1 /\ UNCHANGED tid
CNext == (\E k \in 1..6 : Consume(k)) \/ Silent
CSpec == CInit /\ [][CNext]_cvars

\* report progress: the longest prefix matched per trace (TLC register tid, -workers 1)
Reached == IF l > TLCGet(tid) THEN TLCSet(tid, l) /\ PrintT(<<"REACHED", tid, l, Len(T) + 1>>) ELSE TRUE
\* once a trace has been matched completely the remaining states of that trace need not be explored
NotYetAccepted == TLCGet(tid) <= Len(T)
=============================================================================
