SPECIFICATION Spec
CONSTANTS
 Loops <- L3
 Callers <- C3
 LoopOf <- LoopOf_3x1
 MaxInv = 5
 MaxRetry = 2
 OwnMarkerOnly = TRUE
 ForeignCancelRetry = TRUE
 LifeCycles = FALSE
 Cancels = TRUE
 Failures = TRUE
 Timeouts = TRUE
 Resumes = FALSE
 Evictions = TRUE
CONSTRAINT Bound
INVARIANT Inv_C06
INVARIANT SingleFlightEvenIfEvicting
INVARIANT LockDiscipline
INVARIANT MarkerOwner
