SPECIFICATION Spec
CONSTANTS
 Loops <- L3
 Callers <- C3
 LoopOf <- LoopOf_3x1
 MaxInv = 5
 MaxRetry = 3
 OwnMarkerOnly = FALSE
 ForeignCancelRetry = TRUE
 LifeCycles = TRUE
 Cancels = FALSE
 Failures = FALSE
 Timeouts = TRUE
 Resumes = FALSE
 Evictions = FALSE
CONSTRAINT Bound
INVARIANT Inv_C06
