---------------------------- MODULE CacheContract ----------------------------
(***************************************************************************)
(* Observable contract of threadsafe_async_cache: properties C01, C05, C06 *)
(* as a deterministic monitor over harness-observed events.  It knows      *)
(* nothing about how the cache is implemented.                             *)
(*                                                                         *)
(* Events (records, field e = kind, t = virtual ms, n = sequence number):  *)
(*  CallStart{c,k,loop,tmo}  caller c calls the wrapped function for key k *)
(*                           on loop; tmo = own wait_for time-out (ms) or -1*)
(*  CallEnd{c,kind,inv,exctype} kind \in val|exc|cancel|timeout; inv = id  *)
(*                           of the invocation whose value/exception it is *)
(*                           (0 = not from any invocation)                 *)
(*  FuncStart{i,k,loop,c}    the user function is entered (invocation i,   *)
(*                           performed by call c)                          *)
(*  FuncEnd{i,how}           how \in ok|raise|cancel                       *)
(*  Cancel{c}                the harness cancels c's own task              *)
(*  LoopRunning{loop} / LoopStopped{loop}  is_running() flips              *)
(*  LoopAbandoned{loop}      the loop will never run again (closed or left)*)
(*  Tick                     virtual time advanced to e.t (all threads idle)*)
(*  End{status}              ok | hang                                     *)
(***************************************************************************)
EXTENDS Util

SafetyMs == 60000   \* the 60 s of the property statement

Props == {"C01", "C05", "C06"}

MInit == [
    now       |-> 0,
    inv       |-> EmptyFn,     \* i -> [k, loop, c, st]   st \in run|ok|raise|cancel
    live      |-> EmptyFn,     \* k -> set of invocations in progress on running loops
    inflight  |-> EmptyFn,     \* k -> set of invocations started and not ended (even stranded)
    done      |-> EmptyFn,     \* k -> the successful invocation
    call      |-> EmptyFn,     \* c -> [k, loop, start, tmo, dep]
    pend      |-> {},          \* calls started, not ended
    cancelled |-> {},          \* calls the harness cancelled
    running   |-> EmptyFn,     \* loop -> BOOLEAN
    gone      |-> {},          \* loops that will never run again
    death     |-> EmptyFn,     \* loop -> time of last LoopStopped
    stalled   |-> EmptyFn,     \* loop -> time until which its thread is descheduled (harness stall)
    nstart    |-> 0,
    bad       |-> [p \in Props |-> Ok]
]

LoopsOf(m, is) == {m.inv[i].loop : i \in is}

\* c may legitimately still be waiting at time `to` although nothing is being computed for
\* its key: a loop that hosted an invocation for its key during c's life stopped less than
\* SafetyMs ago.
InSafetyWindow(m, c, to) ==
    \E l \in m.call[c].dep :
        /\ l \in DOMAIN m.death
        /\ ~Get(m.running, l, FALSE)           \* (a loop that was run again serves its waiters itself)
        /\ m.death[l] >= m.call[c].start
        /\ to <= m.death[l] + SafetyMs

\* the thread of loop l is descheduled by the harness until some time >= to
Stalled(m, l, to) == l \in DOMAIN m.stalled /\ to <= m.stalled[l]
\* c is expected to make progress: its own loop is running (and its thread is being scheduled), and so are the
\* loops it may be waiting on
\* (a thread descheduled anywhere - it may hold the in-flight marker without having started the computation - can
\*  hold up anybody: nobody is judged idle while some thread is stalled)
Active(m, c, to) == /\ Get(m.running, m.call[c].loop, FALSE)
                    /\ \A l \in DOMAIN m.stalled : ~Stalled(m, l, to)

IdleWaiters(m, to) ==
    {c \in m.pend : /\ Active(m, c, to)
                    /\ Get(m.live, m.call[c].k, {}) = {}
                    /\ c \notin m.cancelled
                    /\ ~InSafetyWindow(m, c, to)
                    /\ ~(m.call[c].tmo >= 0 /\ to <= m.call[c].start + m.call[c].tmo)}

MStep(m, e, idx) ==
  LET m0 == [m EXCEPT !.now = e.t] IN
  CASE e.e = "CallStart" ->
        [m0 EXCEPT !.call = Put(@, e.c, [k |-> e.k, loop |-> e.loop, start |-> e.t, tmo |-> e.tmo,
                                        dep |-> LoopsOf(m, Get(m.inflight, e.k, {}))]),
                   !.pend = @ \cup {e.c}]
    [] e.e = "FuncStart" ->
        LET b1 == IF Get(m.live, e.k, {}) # {} THEN Flag(m.bad, "C01", "C01_SingleFlight", idx) ELSE m.bad
            b2 == IF e.k \in DOMAIN m.done THEN Flag(b1, "C01", "C01_OnceDone", idx) ELSE b1
        IN [m0 EXCEPT !.inv = Put(@, e.i, [k |-> e.k, loop |-> e.loop, c |-> e.c, st |-> "run"]),
                      !.live = Put(@, e.k, Get(m.live, e.k, {}) \cup {e.i}),
                      !.inflight = Put(@, e.k, Get(m.inflight, e.k, {}) \cup {e.i}),
                      !.call = [c \in DOMAIN @ |->
                                  IF c \in m.pend /\ @[c].k = e.k
                                  THEN [@[c] EXCEPT !.dep = @ \cup {e.loop}] ELSE @[c]],
                      !.nstart = @ + 1,
                      !.bad = b2]
    [] e.e = "FuncEnd" ->
        LET k == m.inv[e.i].k IN
        [m0 EXCEPT !.inv[e.i].st = e.how,
                   !.live = Put(@, k, Get(m.live, k, {}) \ {e.i}),
                   \* (the invocation stays "in flight" for dependency purposes until its caller has finished its
                   \*  clean-up, i.e. until that caller's CallEnd: a newcomer may still find the in-flight marker)
                   !.done = IF e.how = "ok" /\ k \notin DOMAIN @ THEN Put(@, k, e.i) ELSE @]
    [] e.e = "Stall" -> [m0 EXCEPT !.stalled = Put(@, e.thr, e.t + e.d)]
    [] e.e = "Cancel" -> [m0 EXCEPT !.cancelled = @ \cup {e.c}]
    [] e.e = "LoopRunning" ->
        \* a loop that is run again resumes whatever was left pending on it: those invocations are in progress again
        \* (not the ones whose caller has been cancelled meanwhile - e.g. by the loop's shutdown, which runs the loop
        \*  once more only to let the cancelled tasks finish)
        LET back == {i \in DOMAIN m.inv : m.inv[i].loop = e.loop /\ m.inv[i].st = "run" /\ m.inv[i].c \notin m.cancelled}
            ks == {m.inv[i].k : i \in back} IN
        [m0 EXCEPT !.running = Put(@, e.loop, TRUE),
                   !.live = [k \in (DOMAIN @) \cup ks |->
                               Get(@, k, {}) \cup {i \in back : m.inv[i].k = k}]]
    [] e.e = "LoopStopped" ->
        \* invocations pending on a loop that stopped running count as ended from now on
        [m0 EXCEPT !.running = Put(@, e.loop, FALSE),
                   !.death = Put(@, e.loop, e.t),
                   !.live = [k \in DOMAIN @ |-> {i \in @[k] : m.inv[i].loop # e.loop}]]
    [] e.e = "LoopAbandoned" -> [m0 EXCEPT !.gone = @ \cup {e.loop}]
    [] e.e = "Tick" ->
        IF IdleWaiters(m, e.t) # {}
        THEN [m0 EXCEPT !.bad = IF m.cancelled # {} \/ \E i \in DOMAIN m.inv : m.inv[i].st \in {"raise", "cancel"}
                                  \* C06: a failed / cancelled computation delays nobody beyond a recomputation
                                  THEN Flag(Flag(@, "C05", "C05_NoIdleWait", idx), "C06", "C06_DelayedBystander", idx)
                                  ELSE Flag(@, "C05", "C05_NoIdleWait", idx)]
        ELSE m0
    [] e.e = "CallEnd" ->
        LET c == e.c
            k == m.call[c].k
            b == CASE e.kind = "cancel" ->
                        IF c \in m.cancelled THEN m.bad
                        ELSE Flag(m.bad, "C06", "C06_ForeignOutcome_cancel", idx)
                   [] e.kind = "timeout" ->
                        IF m.call[c].tmo >= 0 /\ e.t >= m.call[c].start + m.call[c].tmo THEN m.bad
                        ELSE Flag(m.bad, "C06", "C06_ForeignOutcome_timeout", idx)
                   [] e.kind = "exc" ->
                        IF e.inv \in DOMAIN m.inv /\ m.inv[e.inv].c = c /\ m.inv[e.inv].st = "raise"
                        THEN m.bad
                        ELSE Flag(m.bad, "C06", "C06_ForeignOutcome_" \o e.exctype, idx)
                   [] e.kind = "val" ->
                        IF e.inv \in DOMAIN m.inv /\ m.inv[e.inv].k = k /\ m.inv[e.inv].st = "ok"
                        THEN (IF Get(m.done, k, e.inv) = e.inv THEN m.bad
                              ELSE Flag(m.bad, "C01", "C01_OneResult", idx))
                        ELSE Flag(m.bad, "C06", "C06_WrongValue", idx)
                   [] OTHER -> Flag(m.bad, "C06", "C06_UnknownOutcome", idx)
            \* C05: "finishes with a value, an exception or its caller's own cancellation ... recover by recomputing"
            b5 == IF b["C06"] # m.bad["C06"] /\ e.kind \in {"cancel", "exc", "timeout"}
                  THEN Flag(b, "C05", "C05_NoRecovery_" \o e.exctype, idx) ELSE b
        IN [m0 EXCEPT !.pend = @ \ {c}, !.bad = b5,
                      !.inflight = [kk \in DOMAIN @ |-> {i \in @[kk] : m.inv[i].c # c}]]
    [] e.e = "End" ->
        \* every call whose loop was not abandoned must have finished
        LET stuck == {c \in m.pend : m.call[c].loop \notin m.gone} IN
        IF stuck # {} \/ e.status # "ok"
        THEN [m0 EXCEPT !.bad = IF m.cancelled # {} \/ \E i \in DOMAIN m.inv : m.inv[i].st \in {"raise", "cancel"}
                                  THEN Flag(Flag(@, "C05", "C05_Terminates", idx), "C06", "C06_DelayedBystander", idx)
                                  ELSE Flag(@, "C05", "C05_Terminates", idx)]
        ELSE m0
    [] OTHER -> m0
=============================================================================
