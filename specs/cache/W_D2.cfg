SPECIFICATION Spec
CONSTANTS
 Loops <- L2
 Callers <- C2
 LoopOf <- LoopOf_2x1
 MaxInv = 5
 MaxRetry = 3
 OwnMarkerOnly = TRUE
 ForeignCancelRetry = FALSE
 LifeCycles = TRUE
 Cancels = FALSE
 Failures = FALSE
 Timeouts = TRUE
 Resumes = FALSE
 Evictions = FALSE
CONSTRAINT Bound
INVARIANT Inv_C06
