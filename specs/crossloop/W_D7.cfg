SPECIFICATION Spec
CONSTANTS
 Callers <- K2
 Mode = "idle"
 ReCheck = TRUE
 OwnStart = TRUE
 D7Stutter = TRUE
INVARIANT NoStranded
