------------------------------ MODULE CrossLoop ------------------------------
(***************************************************************************)
(* Implementation-shaped specification of aiuti.asyncio.ensure_aw,         *)
(* run_aw_threadsafe, loop_in_thread and _get_loop_lock for ONE target     *)
(* loop T and callers that each run their own loop in their own thread.    *)
(*                                                                         *)
(*  ensure_aw(aw, T):  T is the caller's own loop -> await directly        *)
(*                     T.is_running()  -> run_coroutine_threadsafe         *)
(*                     T.is_closed()   -> RuntimeError                     *)
(*                     else            -> pool thread: with _get_loop_lock *)
(*                                        (T): T.run_until_complete(aw)    *)
(*  _get_loop_lock: double-checked creation under _LOOP_LOCKS_CREATE_LOCK  *)
(*  loop_in_thread(T): pool thread: with lock: T.run_forever(); the caller *)
(*                     spins until T.is_running(); stop() = call_soon_     *)
(*                     threadsafe(T.stop) + wait for the pool thread       *)
(*                                                                         *)
(* A coroutine submitted thread-safely is executed only while T is being   *)
(* run by somebody; run_until_complete(aw) stops T as soon as *its own*    *)
(* awaitable is done.  That is the known finding D7: a second caller that  *)
(* saw T running only because of the first caller's temporary run is       *)
(* stranded.  The model reproduces it (witness W_D7) and shows that it is  *)
(* the only way a call fails to complete.                                  *)
(***************************************************************************)
EXTENDS Integers, Sequences, FiniteSets, TLC

\* (the @type comments are for Apalache - see Apa_CrossLoop.tla; TLC ignores them)
CONSTANTS
    \* @type: Bool;
    D7Stutter,     \* TRUE: a stranded call (known finding D7) is not reported as a deadlock
    \* @type: Set(Str);
    Callers,       \* caller threads
    \* @type: Str;
    Mode,          \* "idle" | "lit" | "closed" | "mixed" : how T is used ("mixed": loop_in_thread(T) is called while
                   \*  callers already use the idle loop - the history class of known finding D7b)
    \* @type: Bool;
    ReCheck,       \* TRUE: the locked re-check in _get_loop_lock (the code); FALSE: dropped (witness)
    \* @type: Bool;
    OwnStart       \* TRUE: loop_in_thread waits for a callback that only its own run_forever processes (the code since
                   \*  repair 900444e); FALSE: it waits for loop.is_running() (before: defect D7b, witness W_D7b)

VARIABLES
    \* @type: Str -> Str;
    pc,        \* caller -> control point
    \* @type: Str;
    running,   \* who runs T: "none", a caller's pool thread (the caller id), or "LIT"
    \* @type: Bool;
    closed,
    \* @type: Set(Str);
    pending,   \* coroutines submitted to T thread-safely and not yet executed
    \* @type: Int;
    lockOf,    \* which Lock object the table holds for T: 0 = none, else its id
    \* @type: Int;
    nlocks,
    \* @type: Str -> Int;
    myLock,    \* pool thread of caller -> lock object it obtained
    \* @type: Int -> Str;
    holder,    \* lock object id -> holder ("none" or thread)
    \* @type: Str;
    createLock,\* holder of _LOOP_LOCKS_CREATE_LOCK
    \* @type: Str;
    lit,       \* loop_in_thread driver: "off" | "new" | "spinning" | "returned" | "stopping" | "stopped"
    \* @type: Str;
    litpc,     \* the LIT pool thread's control point
    \* @type: Bool;
    stopReq,
    \* @type: Set(Str);
    evaluated, \* callers whose awaitable was evaluated (on T)
    \* @type: Set(Str);
    error      \* callers that got an exception not raised by their awaitable

vars == <<pc, running, closed, pending, lockOf, nlocks, myLock, holder, createLock, lit, litpc, stopReq, evaluated, error>>

None == "none"
LockIds == 1..6         \* lock object ids (enough for 4 callers + loop_in_thread even without the re-check)
Threads == Callers \cup {"LIT"}

Init ==
    /\ pc = [c \in Callers |-> "start"]
    /\ running = None
    /\ closed = (Mode = "closed")
    /\ pending = {}
    /\ lockOf = 0 /\ nlocks = 0
    /\ myLock = [t \in Threads |-> 0]
    /\ holder = [i \in LockIds |-> None]
    /\ createLock = None
    /\ lit = IF Mode \in {"lit", "mixed"} THEN "new" ELSE "off"
    /\ litpc = "idle"
    /\ stopReq = FALSE
    /\ evaluated = {}
    /\ error = {}

Goto(c, l) == pc' = [pc EXCEPT ![c] = l]

\* ---------------------------------------------------------------- ensure_aw in the caller
CheckRunning(c) ==   \* if loop.is_running(): return await run_aw_threadsafe(aw, loop)
    /\ pc[c] = "start" /\ (Mode = "lit" => lit \in {"returned", "stopping", "stopped"})
    /\ IF running # None THEN Goto(c, "ts_submit") ELSE Goto(c, "check_closed")
    /\ UNCHANGED <<running, closed, pending, lockOf, nlocks, myLock, holder, createLock, lit, litpc, stopReq, evaluated, error>>

TsSubmit(c) ==       \* run_coroutine_threadsafe(coro, loop): RuntimeError if the loop is closed
    /\ pc[c] = "ts_submit"
    /\ IF closed
       THEN /\ error' = error \cup {c} /\ Goto(c, "done") /\ UNCHANGED pending
       ELSE /\ pending' = pending \cup {c} /\ Goto(c, "ts_wait") /\ UNCHANGED error
    /\ UNCHANGED <<running, closed, lockOf, nlocks, myLock, holder, createLock, lit, litpc, stopReq, evaluated>>

CheckClosed(c) ==    \* if loop.is_closed(): raise RuntimeError
    /\ pc[c] = "check_closed"
    /\ IF closed THEN error' = error \cup {c} /\ Goto(c, "done")
       ELSE UNCHANGED error /\ Goto(c, "lookup1")         \* run_in_executor(_CROSS_LOOP_POOL, _loop_thread)
    /\ UNCHANGED <<running, closed, pending, lockOf, nlocks, myLock, holder, createLock, lit, litpc, stopReq, evaluated>>

\* ---------------------------------------------------------------- _get_loop_lock in a pool thread
CLookup1(c) ==       \* try: return _LOOP_LOCKS[key]
    /\ pc[c] = "lookup1"
    /\ IF lockOf # 0 THEN myLock' = [myLock EXCEPT ![c] = lockOf] /\ Goto(c, "acq_loop")
       ELSE UNCHANGED myLock /\ Goto(c, "acq_create")
    /\ UNCHANGED <<running, closed, pending, lockOf, nlocks, holder, createLock, lit, litpc, stopReq, evaluated, error>>

CAcqCreate(c) ==     \* with _LOOP_LOCKS_CREATE_LOCK:
    /\ pc[c] = "acq_create" /\ createLock = None
    /\ createLock' = c
    /\ Goto(c, IF ReCheck THEN "lookup2" ELSE "create")
    /\ UNCHANGED <<running, closed, pending, lockOf, nlocks, myLock, holder, lit, litpc, stopReq, evaluated, error>>

CLookup2(c) ==       \* try: return _LOOP_LOCKS[key]  (another thread may have created it meanwhile)
    /\ pc[c] = "lookup2"
    /\ IF lockOf # 0 THEN myLock' = [myLock EXCEPT ![c] = lockOf] /\ Goto(c, "rel_create")
       ELSE UNCHANGED myLock /\ Goto(c, "create")
    /\ UNCHANGED <<running, closed, pending, lockOf, nlocks, holder, createLock, lit, litpc, stopReq, evaluated, error>>

CCreate(c) ==        \* lock = _LOOP_LOCKS[key] = Lock()
    /\ pc[c] = "create"
    /\ nlocks' = nlocks + 1
    /\ lockOf' = nlocks + 1
    /\ myLock' = [myLock EXCEPT ![c] = nlocks + 1]
    /\ Goto(c, "rel_create")
    /\ UNCHANGED <<running, closed, pending, holder, createLock, lit, litpc, stopReq, evaluated, error>>

CRelCreate(c) ==     \* return from inside `with _LOOP_LOCKS_CREATE_LOCK`: the creation lock is released
    /\ pc[c] = "rel_create"
    /\ createLock' = None
    /\ Goto(c, "acq_loop")
    /\ UNCHANGED <<running, closed, pending, lockOf, nlocks, myLock, holder, lit, litpc, stopReq, evaluated, error>>

CAcqLoop(c) ==       \* with <loop lock>:
    /\ pc[c] = "acq_loop" /\ holder[myLock[c]] = None
    /\ holder' = [holder EXCEPT ![myLock[c]] = c]
    /\ Goto(c, "run")
    /\ UNCHANGED <<running, closed, pending, lockOf, nlocks, myLock, createLock, lit, litpc, stopReq, evaluated, error>>

CRun(c) ==           \* loop.run_until_complete(aw): RuntimeError if somebody else is running the loop
    /\ pc[c] = "run"
    /\ IF running # None
       THEN /\ error' = error \cup {c} /\ Goto(c, "rel_loop") /\ UNCHANGED <<running, evaluated>>
       ELSE /\ running' = c /\ evaluated' = evaluated \cup {c} /\ Goto(c, "running") /\ UNCHANGED error
    /\ UNCHANGED <<closed, pending, lockOf, nlocks, myLock, holder, createLock, lit, litpc, stopReq>>

CRunOther(c) ==      \* while T runs, coroutines submitted thread-safely get their turn
    /\ pc[c] = "running" /\ pending # {}
    /\ \E d \in pending : /\ pending' = pending \ {d}
                          /\ evaluated' = evaluated \cup {d}
                          /\ pc' = [pc EXCEPT ![d] = "done"]
    /\ UNCHANGED <<running, closed, lockOf, nlocks, myLock, holder, createLock, lit, litpc, stopReq, error>>

CRunDone(c) ==       \* the caller's own awaitable is done: run_until_complete returns, T is idle again
    /\ pc[c] = "running"
    /\ running' = None
    /\ Goto(c, "rel_loop")
    /\ UNCHANGED <<closed, pending, lockOf, nlocks, myLock, holder, createLock, lit, litpc, stopReq, evaluated, error>>

CRelLoop(c) ==
    /\ pc[c] = "rel_loop"
    /\ holder' = [holder EXCEPT ![myLock[c]] = None]
    /\ Goto(c, "done")
    /\ UNCHANGED <<running, closed, pending, lockOf, nlocks, myLock, createLock, lit, litpc, stopReq, evaluated, error>>

\* ---------------------------------------------------------------- loop_in_thread
LitSubmit ==         \* future = _CROSS_LOOP_POOL.submit(_loop_thread); then spin: while not loop.is_running(): sleep(0)
    /\ lit = "new" /\ lit' = "spinning" /\ litpc' = "lookup1"
    /\ UNCHANGED <<pc, running, closed, pending, lockOf, nlocks, myLock, holder, createLock, stopReq, evaluated, error>>

LitLookup ==         \* the pool thread: _get_loop_lock (same double-checked protocol, folded into two steps)
    /\ litpc = "lookup1"
    /\ IF lockOf # 0 THEN myLock' = [myLock EXCEPT !["LIT"] = lockOf] /\ UNCHANGED <<lockOf, nlocks>>
       ELSE /\ createLock = None
            /\ nlocks' = nlocks + 1 /\ lockOf' = nlocks + 1 /\ myLock' = [myLock EXCEPT !["LIT"] = nlocks + 1]
    /\ litpc' = "acq_loop"
    /\ UNCHANGED <<pc, running, closed, pending, holder, createLock, lit, stopReq, evaluated, error>>

LitAcq ==
    /\ litpc = "acq_loop" /\ holder[myLock["LIT"]] = None
    /\ holder' = [holder EXCEPT ![myLock["LIT"]] = "LIT"]
    /\ litpc' = "run"
    /\ UNCHANGED <<pc, running, closed, pending, lockOf, nlocks, myLock, createLock, lit, stopReq, evaluated, error>>

LitRun ==            \* loop.run_forever()
    /\ litpc = "run" /\ running = None
    /\ running' = "LIT" /\ litpc' = "running"
    /\ UNCHANGED <<pc, closed, pending, lockOf, nlocks, myLock, holder, createLock, lit, stopReq, evaluated, error>>

LitReturn ==         \* the spin loop sees its own run_forever at work (before 900444e: any is_running()): loop_in_thread returns
    /\ lit = "spinning" /\ (IF OwnStart THEN running = "LIT" ELSE running # None)
    /\ lit' = "returned"
    /\ UNCHANGED <<pc, running, closed, pending, lockOf, nlocks, myLock, holder, createLock, litpc, stopReq, evaluated, error>>

LitServe ==          \* the running loop executes a thread-safely submitted coroutine
    /\ litpc = "running" /\ pending # {}
    /\ \E d \in pending : /\ pending' = pending \ {d}
                          /\ evaluated' = evaluated \cup {d}
                          /\ pc' = [pc EXCEPT ![d] = "done"]
    /\ UNCHANGED <<running, closed, lockOf, nlocks, myLock, holder, createLock, lit, litpc, stopReq, error>>

LitStopCall ==       \* stop(): loop.call_soon_threadsafe(loop.stop); future.result()
    /\ lit = "returned" /\ \A c \in Callers : pc[c] = "done"
    /\ lit' = "stopping" /\ stopReq' = TRUE
    /\ UNCHANGED <<pc, running, closed, pending, lockOf, nlocks, myLock, holder, createLock, litpc, evaluated, error>>

LitStops ==          \* run_forever returns (the loop's lock is still held)
    /\ litpc = "running" /\ stopReq /\ pending = {}
    /\ running' = None /\ litpc' = "rel"
    /\ UNCHANGED <<pc, closed, pending, lockOf, nlocks, myLock, holder, createLock, lit, stopReq, evaluated, error>>

LitRel ==            \* the `with` block ends: the lock is released, the pool future completes
    /\ litpc = "rel"
    /\ holder' = [holder EXCEPT ![myLock["LIT"]] = None]
    /\ litpc' = "done"
    /\ UNCHANGED <<pc, running, closed, pending, lockOf, nlocks, myLock, createLock, lit, stopReq, evaluated, error>>

LitStopReturn ==
    /\ lit = "stopping" /\ litpc = "done"
    /\ lit' = "stopped"
    /\ UNCHANGED <<pc, running, closed, pending, lockOf, nlocks, myLock, holder, createLock, litpc, stopReq, evaluated, error>>

\* ----------------------------------------------------------------
\* the known finding D7: a call submitted thread-safely while only a temporary runner was running T
Stranded == \E c \in Callers : pc[c] = "ts_wait" /\ c \in pending /\ running = None
                               /\ \A d \in Callers : pc[d] \in {"done", "ts_wait"}
CallerStep(c) == \/ CheckRunning(c) \/ TsSubmit(c) \/ CheckClosed(c) \/ CLookup1(c) \/ CAcqCreate(c) \/ CLookup2(c)
                 \/ CCreate(c) \/ CRelCreate(c) \/ CAcqLoop(c) \/ CRun(c) \/ CRunOther(c) \/ CRunDone(c) \/ CRelLoop(c)
LitStep == LitSubmit \/ LitLookup \/ LitAcq \/ LitRun \/ LitReturn \/ LitServe \/ LitStopCall \/ LitStops \/ LitRel \/ LitStopReturn
AllDone == (\A c \in Callers : pc[c] = "done") /\ lit \in {"off", "stopped"}
Finish == AllDone /\ UNCHANGED vars
Next == (\E c \in Callers : CallerStep(c)) \/ LitStep \/ Finish \/ (D7Stutter /\ Stranded /\ UNCHANGED vars)
Spec == Init /\ [][Next]_vars
FairSpec == Spec /\ WF_vars(Next)

\* ---------------------------------------------------------------- properties (C17)
\* never two threads running T: run_until_complete / run_forever only under the loop's lock
OneRunner == \A c \in Callers : pc[c] = "running" => running = c
OneLockPerLoop == nlocks <= 1
NoAlreadyRunning == Mode # "closed" => error = {}
ClosedRaises == Mode = "closed" => (\A c \in Callers : pc[c] = "done" => c \in error) /\ evaluated = {}
StartSync == lit = "returned" => running = "LIT" \/ stopReq
StopSync == lit = "stopped" => running = None
\* every call completes when its awaitable does
Completes == <>[]AllDone
NoStranded == ~Stranded
=============================================================================
