--------------------------- MODULE Apa_CrossLoop ---------------------------
(***************************************************************************)
(* Inductive invariant of CrossLoop.tla, discharged by Apalache:           *)
(*   apalache-mc check --cinit=CInit --init=IndInv --inv=IndInv --length=1 *)
(*   apalache-mc check --cinit=CInit --init=Init --inv=IndInv --length=0   *)
(* for every set of callers within CInit, every mode, and - unlike the TLC *)
(* runs - without enumerating the reachable states: IndInv holds initially *)
(* and is preserved by every step, hence in all reachable states.  It      *)
(* implies OneLockPerLoop, OneRunner, NoAlreadyRunning, StopSync.          *)
(***************************************************************************)
EXTENDS CrossLoop

CInit == /\ Callers \in SUBSET {"C1", "C2", "C3", "C4"}
         /\ Mode \in {"idle", "lit", "closed", "mixed"}
         /\ ReCheck = TRUE
         /\ OwnStart = TRUE
         /\ D7Stutter = TRUE

\* vacuity guard: without the locked re-check of _get_loop_lock the invariant is NOT inductive
CInitNoReCheck == /\ Callers \in SUBSET {"C1", "C2", "C3", "C4"}
                  /\ Mode \in {"idle", "lit", "closed"}
                  /\ ReCheck = FALSE
                  /\ OwnStart = TRUE
                  /\ D7Stutter = TRUE

PCs == {"start", "ts_submit", "ts_wait", "check_closed", "lookup1", "acq_create", "lookup2", "create", "rel_create",
        "acq_loop", "run", "running", "rel_loop", "done"}
CreateSection == {"lookup2", "create", "rel_create"}
LoopSection == {"run", "running", "rel_loop"}
LitSection == {"run", "running", "rel"}

TypeOK ==
    /\ pc \in [Callers -> PCs]
    /\ running \in Callers \cup {"none", "LIT"}
    /\ closed \in BOOLEAN
    /\ pending \in SUBSET Callers
    /\ lockOf \in 0..1 /\ nlocks \in 0..1
    /\ myLock \in [Threads -> 0..1]
    /\ holder \in [LockIds -> Threads \cup {"none"}]
    /\ createLock \in Callers \cup {"none"}
    /\ lit \in {"off", "new", "spinning", "returned", "stopping", "stopped"}
    /\ litpc \in {"idle", "lookup1", "acq_loop", "run", "running", "rel", "done"}
    /\ stopReq \in BOOLEAN
    /\ evaluated \in SUBSET Callers
    /\ error \in SUBSET Callers

IndInv ==
    /\ TypeOK
    /\ closed = (Mode = "closed")
    \* the lock table: one lock object per loop, created under the creation lock
    /\ lockOf = nlocks
    /\ \A c \in Callers : (createLock = c) <=> (pc[c] \in CreateSection)
    /\ \A c \in Callers : pc[c] = "create" => lockOf = 0
    /\ \A c \in Callers : pc[c] = "rel_create" => myLock[c] = 1
    /\ \A t \in Threads : myLock[t] = 1 => lockOf = 1
    /\ \A c \in Callers : pc[c] \in {"acq_loop"} \cup LoopSection => myLock[c] = 1
    /\ litpc \in {"acq_loop"} \cup LitSection => myLock["LIT"] = 1
    \* the loop's lock: held exactly by the thread inside its run section
    /\ \A c \in Callers : (holder[1] = c) <=> (pc[c] \in LoopSection)
    /\ (holder[1] = "LIT") <=> (litpc \in LitSection)
    /\ \A i \in DOMAIN holder : i # 1 => holder[i] = "none"
    \* T is run only by the holder of its lock
    /\ \A c \in Callers : (running = c) <=> (pc[c] = "running")
    /\ (running = "LIT") <=> (litpc = "running")
    \* a coroutine submitted thread-safely is pending exactly while its caller waits for it
    /\ \A c \in Callers : (c \in pending) <=> (pc[c] = "ts_wait")
    \* nobody gets an exception of the machinery unless the target is closed
    /\ error # {} => Mode = "closed"
    \* loop_in_thread's life cycle
    /\ (Mode \notin {"lit", "mixed"}) => (lit = "off" /\ litpc = "idle")
    /\ lit \in {"off", "new"} => litpc = "idle"
    /\ lit = "stopped" => litpc = "done"
    /\ (Mode = "lit" /\ lit \in {"new", "spinning"}) => \A c \in Callers : pc[c] = "start"
    /\ lit = "returned" => litpc = "running"
    /\ stopReq => \A c \in Callers : pc[c] = "done"
    /\ lit = "stopping" => litpc \in {"running", "rel", "done"}
    /\ litpc \in {"rel", "done"} => stopReq
    /\ stopReq <=> lit \in {"stopping", "stopped"}

\* consequences (checked by Apalache as plain implications of IndInv: --inv=Consequences with --init=IndInv --length=0)
Consequences ==
    /\ OneLockPerLoop
    /\ OneRunner
    /\ NoAlreadyRunning
    /\ StopSync
    /\ StartSync
=============================================================================
