SPECIFICATION Spec
CONSTANTS
 Callers <- K1
 Mode = "mixed"
 ReCheck = TRUE
 OwnStart = FALSE
 D7Stutter = TRUE
INVARIANT StartSync
CHECK_DEADLOCK FALSE
