-------------------------- MODULE CrossLoopConform --------------------------
(***************************************************************************)
(* Implementation conformance (code -> spec) for ensure_aw / loop_in_thread:*)
(* one recorded execution of caller threads on the real code is accepted   *)
(* iff CrossLoop.tla has a behaviour with the same observable points in    *)
(* the same order - call started, somebody starts / stops running T,       *)
(* awaitable evaluated, call ended (value / awaitable's exception /        *)
(* RuntimeError), loop_in_thread returned, stop() called / returned - with *)
(* the steps of ensure_aw, _get_loop_lock and the pool threads silent in   *)
(* between, and whose projected state equals at every observable point     *)
(* what is read from the real objects: T.is_running(), whether the lock    *)
(* table has an entry for T, whether that lock is held, whether the        *)
(* creation lock is held.                                                  *)
(***************************************************************************)
EXTENDS CrossLoop, Json, IOUtils

T == JsonDeserialize(IOEnv.TRACE_FILE)

VARIABLES l, sil
cvars == <<vars, l, sil>>

Proj == <<running # None, lockOf # 0, IF lockOf = 0 THEN FALSE ELSE holder[lockOf] # None, createLock # None>>
\* (the RunnerExit observation point lies immediately before is_running() flips, with no yield point in between)
Logged(e) == <<IF e.e = "RunnerExit" THEN FALSE ELSE e.st[1], e.st[2], e.st[3], e.st[4]>>

CInit == Init /\ l = 1 /\ sil = 0 /\ TLCSet(1, 0)

Same == UNCHANGED vars
Match(e) ==
    CASE e.e = "CallStart" -> pc[e.c] = "start" /\ Same
      [] e.e = "RunnerEnter" -> \/ \E c \in Callers : CRun(c) /\ running' = c
                                \/ LitRun
      [] e.e = "RunnerExit" -> \/ \E c \in Callers : CRunDone(c)
                               \/ LitStops
      [] e.e = "AwEval" -> \/ running = e.c /\ e.c \in evaluated /\ pc[e.c] = "running" /\ Same
                           \/ /\ e.c \notin evaluated
                              /\ \/ \E r \in Callers : CRunOther(r)
                                 \/ LitServe
                              /\ e.c \in evaluated'
      [] e.e = "CallEnd" /\ e.kind \in {"val", "exc"} ->
                           pc[e.c] = "done" /\ e.c \in evaluated /\ e.c \notin error /\ Same
      [] e.e = "CallEnd" /\ e.kind = "runtimeerror" ->
                           pc[e.c] = "done" /\ e.c \in error /\ Same
      [] e.e = "LITReturned" -> LitReturn
      [] e.e = "StopCalled" -> LitStopCall
      [] e.e = "StopReturned" -> LitStopReturn
      [] OTHER -> FALSE

Consume == /\ l <= Len(T)
           /\ Match(T[l])
           /\ Proj' = Logged(T[l])
           /\ l' = l + 1 /\ sil' = 0
InternalC(c) == \/ CheckRunning(c) \/ TsSubmit(c) \/ CheckClosed(c) \/ CLookup1(c) \/ CAcqCreate(c) \/ CLookup2(c)
                \/ CCreate(c) \/ CRelCreate(c) \/ CAcqLoop(c) \/ CRelLoop(c)
                \/ (CRun(c) /\ running' = running)       \* run_until_complete refused: the loop is already running
InternalL == LitSubmit \/ LitLookup \/ LitAcq \/ LitRel
Silent == /\ l <= Len(T)
          /\ sil < 60
          /\ \/ \E c \in Callers : InternalC(c)
             \/ InternalL
          /\ l' = l /\ sil' = sil + 1
CNext == Consume \/ Silent
Reached == IF l > TLCGet(1) THEN TLCSet(1, l) /\ PrintT(<<"REACHED", 1, l, Len(T) + 1>>) ELSE TRUE
NotYetAccepted == TLCGet(1) <= Len(T)
=============================================================================
