SPECIFICATION Spec
CONSTANTS
 Callers <- K4
 Mode = "idle"
 ReCheck = TRUE
 OwnStart = TRUE
 D7Stutter = TRUE
INVARIANT OneRunner
INVARIANT OneLockPerLoop
INVARIANT NoAlreadyRunning
