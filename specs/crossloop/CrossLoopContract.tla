--------------------------- MODULE CrossLoopContract ---------------------------
(***************************************************************************)
(* C17: ensure_aw / run_aw_threadsafe / loop_in_thread.                    *)
(* Events: Config{target,ncallers} CallStart{c,thr,to,fn,kind,out}         *)
(*  AwEval{c,thr,loop} AwDone{c} CallEnd{c,kind,tag,exctype} RunnerEnter{loop,thr}   *)
(*  RunnerExit{loop,thr} LITReturned{running} StopReturned{running} End    *)
(***************************************************************************)
EXTENDS Util
Props == {"C17"}
MInit == [target |-> "", call |-> EmptyFn, pend |-> {}, runner |-> EmptyFn, stopRunner |-> "", awdone |-> EmptyFn, anyStall |-> FALSE,
          bad |-> [p \in Props |-> Ok]]
MStep(m, e, idx) ==
  CASE e.e = "Config" -> [m EXCEPT !.target = e.target]
    [] e.e = "CallStart" ->
        [m EXCEPT !.call = Put(@, e.c, [thr |-> e.thr, to |-> e.to, out |-> e.out, fn |-> e.fn, kind |-> e.kind]),
                  !.pend = @ \cup {e.c}]
    [] e.e = "AwEval" ->
        LET c == m.call[e.c]
            \* the shared loop T, the caller's own loop, or the own loop of another caller (loops are named after
            \* their threads)
            want == IF c.to = "T" THEN "T" ELSE IF c.to = "own" THEN c.thr ELSE c.to IN
        [m EXCEPT !.bad = IF e.loop # want THEN Flag(@, "C17", "C17_OnTarget", idx) ELSE @]
    [] e.e = "AwDone" -> [m EXCEPT !.awdone = Put(@, e.c, e.t)]
    [] e.e = "Stall" -> [m EXCEPT !.anyStall = TRUE]      \* (the harness descheduled a thread: timing is not judged)
    [] e.e = "CallEnd" ->
        LET c == m.call[e.c]
            closed == m.target = "closed" /\ c.to = "T"
            b == IF closed
                 THEN (IF e.kind = "runtimeerror" THEN m.bad ELSE Flag(m.bad, "C17", "C17_ClosedRaises", idx))
                 ELSE IF c.out = "val" /\ e.kind = "val" /\ e.tag = e.c THEN m.bad
                 ELSE IF c.out = "exc" /\ e.kind = "exc" /\ e.tag = e.c THEN m.bad
                 ELSE Flag(m.bad, "C17", "C17_Transparent_" \o e.kind \o "_" \o e.exctype, idx)
            \* "every ensure_aw call completes when its awaitable does": a coroutine is evaluated by the caller's own run
            \* (or by the permanent runner), which hands the result back at once - no virtual time passes in between.
            \* (A task / future that completed while another caller was running the loop is only collected once the
            \*  caller's own run gets the loop's lock: not judged.)
            b2 == IF ~m.anyStall /\ c.kind = "coro" /\ e.c \in DOMAIN m.awdone /\ e.t > m.awdone[e.c] THEN Flag(b, "C17", "C17_CompletesLate", idx) ELSE b
        IN [m EXCEPT !.pend = @ \ {e.c}, !.bad = b2]
    [] e.e = "RunnerEnter" ->
        [m EXCEPT !.runner = Put(@, e.loop, e.thr),
                  !.bad = IF Get(m.runner, e.loop, "") # "" THEN Flag(@, "C17", "C17_OneRunner", idx) ELSE @]
    [] e.e = "RunnerExit" -> [m EXCEPT !.runner = Put(@, e.loop, ""),
                                        !.stopRunner = IF e.thr = @ THEN "" ELSE @]
    [] e.e = "StopCalled" -> [m EXCEPT !.stopRunner = Get(m.runner, "T", "")]
    [] e.e = "LITReturned" ->
        [m EXCEPT !.bad = IF ~e.running THEN Flag(@, "C17", "C17_StartSync", idx) ELSE @]
    [] e.e = "StopReturned" ->
        \* the stop function returns only once the run it stopped has ended (somebody else - a caller that was
        \* waiting for the loop's lock - may legitimately be running the loop again by then)
        [m EXCEPT !.bad = IF m.stopRunner # "" THEN Flag(@, "C17", "C17_StopSync", idx) ELSE @]
    [] e.e = "End" ->
        [m EXCEPT !.bad = IF e.status # "ok" \/ m.pend # {} THEN Flag(@, "C17", "C17_Completes", idx) ELSE @]
    [] OTHER -> m
=============================================================================
