SPECIFICATION Spec
CONSTANTS
 Callers <- K3
 Mode = "idle"
 ReCheck = TRUE
 D7Stutter = TRUE
INVARIANT OneRunner
INVARIANT OneLockPerLoop
INVARIANT NoAlreadyRunning
