SPECIFICATION FairSpec
CONSTANTS
 Callers <- K1
 Mode = "idle"
 ReCheck = TRUE
 OwnStart = TRUE
 D7Stutter = FALSE
INVARIANT OneRunner
INVARIANT OneLockPerLoop
INVARIANT NoAlreadyRunning
PROPERTY Completes
