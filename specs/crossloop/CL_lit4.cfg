SPECIFICATION FairSpec
CONSTANTS
 Callers <- K4
 Mode = "lit"
 ReCheck = TRUE
 OwnStart = TRUE
 D7Stutter = FALSE
INVARIANT OneRunner
INVARIANT OneLockPerLoop
INVARIANT NoAlreadyRunning
INVARIANT StartSync
INVARIANT StopSync
INVARIANT NoStranded
PROPERTY Completes
