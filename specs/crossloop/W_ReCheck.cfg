SPECIFICATION Spec
CONSTANTS
 Callers <- K2
 Mode = "idle"
 ReCheck = FALSE
 OwnStart = TRUE
 D7Stutter = TRUE
INVARIANT OneLockPerLoop
