SPECIFICATION Spec
CONSTANTS
 Callers <- K3
 Mode = "mixed"
 ReCheck = TRUE
 OwnStart = TRUE
 D7Stutter = TRUE
INVARIANT StartSync
INVARIANT StopSync
INVARIANT OneRunner
INVARIANT OneLockPerLoop
INVARIANT NoAlreadyRunning
CHECK_DEADLOCK FALSE
