SPECIFICATION FairSpec
CONSTANTS
 Callers <- K2
 Mode = "closed"
 ReCheck = TRUE
 OwnStart = TRUE
 D7Stutter = FALSE
INVARIANT ClosedRaises
PROPERTY Completes
