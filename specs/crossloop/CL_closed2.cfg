SPECIFICATION FairSpec
CONSTANTS
 Callers <- K2
 Mode = "closed"
 ReCheck = TRUE
 D7Stutter = FALSE
INVARIANT ClosedRaises
PROPERTY Completes
