SPECIFICATION Spec
CONSTANTS
 Callers <- K2
 Mode = "idle"
 ReCheck = FALSE
 D7Stutter = TRUE
INVARIANT NoAlreadyRunning
