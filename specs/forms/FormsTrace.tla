------------------------------ MODULE FormsTrace ------------------------------
(* C15_FormsEquivalent: the decorator-with-options form and the direct form, run on the same timed
   program, must produce the same observable trace event for event.  Each input item is a record
   [a |-> trace of one form, b |-> trace of the other]; events are compared as records. *)
EXTENDS Util, Json, IOUtils
Traces == JsonDeserialize(IOEnv.TRACE_FILE)
VARIABLES tid, l, m
vars == <<tid, l, m>>
MInit == [bad |-> [p \in {"C15"} |-> Ok]]
Init == tid \in 1..Len(Traces) /\ l = 1 /\ m = MInit
Longest == Max(Len(Traces[tid].a), Len(Traces[tid].b))
Step == /\ l <= Longest
        /\ LET a == Traces[tid].a
               b == Traces[tid].b
               same == l <= Len(a) /\ l <= Len(b) /\ a[l] = b[l]
           IN m' = IF same THEN m ELSE [m EXCEPT !.bad = Flag(@, "C15", "C15_FormsEquivalent", l)]
        /\ l' = l + 1
        /\ UNCHANGED tid
Spec == Init /\ [][Step]_vars
Report == (l = Longest + 1) => PrintT(<<"VERDICT", tid, m.bad>>)
=============================================================================
