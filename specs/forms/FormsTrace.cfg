INIT Init
NEXT Step
CONSTRAINT Report
CHECK_DEADLOCK FALSE
