----------------------------- MODULE MC_LockSeq -----------------------------
EXTENDS LockSeq
CfgNN == [reentrant |-> <<FALSE, FALSE>>, deftimeout |-> <<-1, -1>>, poll |-> 50]
CfgRN == [reentrant |-> <<TRUE, FALSE>>, deftimeout |-> <<-1, 100>>, poll |-> 50]
CfgRR == [reentrant |-> <<TRUE, TRUE>>, deftimeout |-> <<100, 0>>, poll |-> 50]
CfgR1 == [reentrant |-> <<TRUE>>, deftimeout |-> <<-1>>, poll |-> 50]
T2 == {"T1", "T2"}
TM == {-2, -1, 0, 100, 400}
=============================================================================
