------------------------------ MODULE CrashTrace ------------------------------
(* C13: histories of crash-point experiments on the real code.
   CrashConfig{kind,kill_at,contenders,prompt_ms} Killed{nth,fn,line} | Completed{lines}
   Probe{ok,ms} Enter{h}/Exit{h} of surviving contenders  End *)
EXTENDS Util, Json, IOUtils
Traces == JsonDeserialize(IOEnv.TRACE_FILE)
VARIABLES tid, l, m
vars == <<tid, l, m>>
MInit == [prompt |-> 2000, inside |-> {}, bad |-> [p \in {"C13"} |-> Ok]]
MStep(mm, e, idx) ==
  CASE e.e = "CrashConfig" -> [mm EXCEPT !.prompt = e.prompt_ms]
    [] e.e = "Probe" ->
        IF ~e.ok THEN [mm EXCEPT !.bad = Flag(@, "C13", "C13_StuckAfterCrash", idx)]
        ELSE IF e.ms > mm.prompt THEN [mm EXCEPT !.bad = Flag(@, "C13", "C13_PromptAfterCrash", idx)]
        ELSE mm
    [] e.e = "Enter" ->
        [mm EXCEPT !.inside = @ \cup {e.h},
                   !.bad = IF mm.inside # {} THEN Flag(@, "C13", "C13_SurvivorsExclusive", idx) ELSE @]
    [] e.e = "Exit" -> [mm EXCEPT !.inside = @ \ {e.h}]
    [] OTHER -> mm
Init == tid \in 1..Len(Traces) /\ l = 1 /\ m = MInit
Step == /\ l <= Len(Traces[tid])
        /\ m' = MStep(m, Traces[tid][l], l)
        /\ l' = l + 1
        /\ UNCHANGED tid
Spec == Init /\ [][Step]_vars
Report == (l = Len(Traces[tid]) + 1) => PrintT(<<"VERDICT", tid, m.bad>>)
=============================================================================
