SPECIFICATION Spec
CONSTANTS
 Threads <- T2
 Objs <- O2
 ObjOf <- Obj_any2
 ProcOf <- Proc_one2
 Reentrant = TRUE
 Rounds = 1
 Crashes = FALSE
 Nest = TRUE
 Faults = 1
INVARIANT C02_Exclusive
INVARIANT C13_NoOrphanLock
INVARIANT FdMeansKernelLock
INVARIANT HolderHoldsTL
INVARIANT Quiet
