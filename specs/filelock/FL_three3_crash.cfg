SPECIFICATION Spec
CONSTANTS
 Threads <- T3
 Objs <- O3
 ObjOf <- Obj_own3
 ProcOf <- Proc_three3
 Reentrant = FALSE
 Rounds = 1
 Crashes = TRUE
 Nest = FALSE
 Faults = 1
INVARIANT C02_Exclusive
INVARIANT C13_NoOrphanLock
INVARIANT FdMeansKernelLock
INVARIANT HolderHoldsTL
INVARIANT Quiet
