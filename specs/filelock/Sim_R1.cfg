SPECIFICATION Spec
CONSTANTS
 Cfg <- CfgR1
 Thrs <- T2
 MaxLen = 7
 MaxFaults = 2
 Timeouts <- TM
CONSTRAINT PrintFull
CONSTRAINT Small
CHECK_DEADLOCK FALSE
