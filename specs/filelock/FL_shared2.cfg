SPECIFICATION Spec
CONSTANTS
 Threads <- T2
 Objs <- O1
 ObjOf <- Obj_shared2
 ProcOf <- Proc_one2
 Reentrant = FALSE
 Rounds = 2
 Crashes = FALSE
 Nest = FALSE
 Faults = 1
INVARIANT C02_Exclusive
INVARIANT C13_NoOrphanLock
INVARIANT FdMeansKernelLock
INVARIANT HolderHoldsTL
INVARIANT Quiet
