SPECIFICATION Spec
CONSTANTS
 Threads <- T3
 Objs <- O2
 ObjOf <- Obj_mix3
 ProcOf <- Proc_mix3
 Reentrant = TRUE
 Rounds = 1
 Crashes = TRUE
 Nest = TRUE
 Faults = 1
INVARIANT C02_Exclusive
INVARIANT C13_NoOrphanLock
INVARIANT FdMeansKernelLock
INVARIANT HolderHoldsTL
INVARIANT Quiet
