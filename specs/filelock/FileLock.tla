------------------------------ MODULE FileLock ------------------------------
(***************************************************************************)
(* Implementation-shaped specification of aiuti.filelock.BaseFileLock /    *)
(* UnixFileLock: one action per line-level step of acquire() / release()   *)
(* that touches shared state.  Contenders are threads; every thread        *)
(* belongs to a process and uses one FileLock object of its process (two   *)
(* threads may share an object).  All objects name ONE lock file.          *)
(*                                                                         *)
(* Kernel model (flock(2)): the lock belongs to an *open file description* *)
(* (one per os.open); closing the descriptor or the death of the owning    *)
(* process drops it.  In-process lock: threading.Lock / RLock per object.  *)
(*                                                                         *)
(* Each thread performs Rounds rounds of:  acquire(mode) ; [section] ;     *)
(* release().   mode \in block | nb | timed (chosen nondeterministically). *)
(* Time is abstracted: a timed acquire may give up at any waiting step.    *)
(* Crash(p) (SIGKILL) is enabled at every control point when Crashes.      *)
(***************************************************************************)
EXTENDS Integers, Sequences, FiniteSets, TLC

CONSTANTS Threads, Objs, ObjOf, ProcOf, Reentrant, Rounds, Crashes, Nest, Faults

VARIABLES
    pc,        \* thread -> control point
    mode,      \* thread -> "block" | "nb" | "timed"
    round,     \* thread -> rounds completed
    obj,       \* thread -> the FileLock object used in the current round (chosen from ObjOf[t])
    depthT,    \* thread -> nesting depth of successful acquires it has not released (harness view)
    tlOwner,   \* object -> thread owning the in-process lock or "none"
    tlDepth,   \* object -> RLock recursion depth
    counter,   \* object -> _lock_counter
    fd,        \* object -> open file description id held as _lock_file_fd, 0 = None
    tmpfd,     \* thread -> descriptor opened by _acquire, not yet stored (0 = none)
    klock,     \* open file description holding the kernel lock, 0 = free
    ofd,       \* set of open file descriptions: records [id, proc]
    nextid,
    alive,     \* process -> BOOLEAN
    inside,    \* threads inside the critical section
    nfault     \* OSErrors injected so far

vars == <<pc, mode, round, obj, depthT, tlOwner, tlDepth, counter, fd, tmpfd, klock, ofd, nextid, alive, inside, nfault>>

None == "none"
O(t) == obj[t]
P(t) == ProcOf[t]
Live(t) == alive[P(t)]

Init ==
    /\ pc = [t \in Threads |-> "idle"]
    /\ mode = [t \in Threads |-> "block"]
    /\ round = [t \in Threads |-> 0]
    /\ obj = [t \in Threads |-> CHOOSE o \in ObjOf[t] : TRUE]
    /\ depthT = [t \in Threads |-> 0]
    /\ tlOwner = [o \in Objs |-> None]
    /\ tlDepth = [o \in Objs |-> 0]
    /\ counter = [o \in Objs |-> 0]
    /\ fd = [o \in Objs |-> 0]
    /\ tmpfd = [t \in Threads |-> 0]
    /\ klock = 0
    /\ ofd = {}
    /\ nextid = 1
    /\ alive = [p \in {ProcOf[t] : t \in Threads} |-> TRUE]
    /\ inside = {}
    /\ nfault = 0

Goto(t, l) == pc' = [pc EXCEPT ![t] = l]
\* descriptor numbers are reused (lowest free number), which also keeps the model finite
FreshId == CHOOSE i \in 1..(Cardinality(ofd) + 1) : \A r \in ofd : r.id # i

\* ------------------------------------------------------------------ acquire()
Start(t) ==      \* the harness calls acquire(mode) (first or nested)
    /\ Live(t) /\ pc[t] = "idle" /\ round[t] < Rounds
    /\ \E m \in {"block", "nb", "timed"} : mode' = [mode EXCEPT ![t] = m]
    /\ \E o \in ObjOf[t] : obj' = [obj EXCEPT ![t] = o]
    /\ Goto(t, "tl_acquire")
    /\ UNCHANGED <<round, depthT, tlOwner, tlDepth, counter, fd, tmpfd, klock, ofd, nextid, alive, inside, nfault>>

TLAcquire(t) ==  \* line: self._thread_lock.acquire(blocking, timeout)
    /\ Live(t) /\ pc[t] = "tl_acquire"
    /\ LET o == O(t) IN
       IF tlOwner[o] = None \/ (tlOwner[o] = t /\ Reentrant)
       THEN /\ tlOwner' = [tlOwner EXCEPT ![o] = t]
            /\ tlDepth' = [tlDepth EXCEPT ![o] = @ + 1]
            /\ Goto(t, "inc_counter")
            /\ UNCHANGED round
       ELSE \* held by somebody else: a blocking acquire just waits at this control point
            /\ mode[t] # "block"
            /\ Goto(t, "refused")                   \* acquire() is going to return False: nothing changed
            /\ UNCHANGED <<round, tlOwner, tlDepth>>
    /\ UNCHANGED <<obj, mode, depthT, counter, fd, tmpfd, klock, ofd, nextid, alive, inside, nfault>>

IncCounter(t) == \* self._lock_counter += 1 ; if self.is_locked: return True
    /\ Live(t) /\ pc[t] = "inc_counter"
    /\ counter' = [counter EXCEPT ![O(t)] = @ + 1]
    /\ Goto(t, IF fd[O(t)] # 0 THEN "acquired" ELSE "os_open")
    /\ UNCHANGED <<obj, mode, round, depthT, tlOwner, tlDepth, fd, tmpfd, klock, ofd, nextid, alive, inside, nfault>>

OsOpen(t) ==     \* fd = os.open(...)   (may fail with OSError: _acquire returns silently)
    /\ Live(t) /\ pc[t] = "os_open"
    /\ \/ /\ ofd' = ofd \cup {[id |-> FreshId, proc |-> P(t)]}
          /\ tmpfd' = [tmpfd EXCEPT ![t] = FreshId]
          /\ nextid' = nextid
          /\ Goto(t, "os_lock")
          /\ UNCHANGED nfault
       \/ /\ nfault < Faults
          /\ nfault' = nfault + 1
          /\ Goto(t, "check")
          /\ UNCHANGED <<obj, ofd, tmpfd, nextid>>
    /\ UNCHANGED <<obj, mode, round, depthT, tlOwner, tlDepth, counter, fd, klock, alive, inside>>

OsLock(t) ==     \* self._lock(fd, block): flock(LOCK_EX [| LOCK_NB])
    /\ Live(t) /\ pc[t] = "os_lock"
    /\ \/ /\ klock = 0                                   \* granted
          /\ klock' = tmpfd[t]
          /\ Goto(t, "set_fd")
          /\ UNCHANGED nfault
       \/ /\ klock # 0 /\ mode[t] # "block"              \* EWOULDBLOCK (non-blocking flock)
          /\ Goto(t, "close_fail")
          /\ UNCHANGED <<obj, klock, nfault>>
       \/ /\ nfault < Faults                             \* any other OSError
          /\ nfault' = nfault + 1
          /\ Goto(t, "close_fail")
          /\ UNCHANGED klock
       \* a blocking flock on a held lock simply stays at this control point
    /\ UNCHANGED <<obj, mode, round, depthT, tlOwner, tlDepth, counter, fd, tmpfd, ofd, nextid, alive, inside>>

SetFd(t) ==      \* self._lock_file_fd = fd
    /\ Live(t) /\ pc[t] = "set_fd"
    /\ fd' = [fd EXCEPT ![O(t)] = tmpfd[t]]
    /\ tmpfd' = [tmpfd EXCEPT ![t] = 0]
    /\ Goto(t, "check")
    /\ UNCHANGED <<obj, mode, round, depthT, tlOwner, tlDepth, counter, klock, ofd, nextid, alive, inside, nfault>>

CloseFail(t) ==  \* except (IOError, OSError): os.close(fd)
    /\ Live(t) /\ pc[t] = "close_fail"
    /\ ofd' = {r \in ofd : r.id # tmpfd[t]}
    /\ klock' = IF klock = tmpfd[t] THEN 0 ELSE klock
    /\ tmpfd' = [tmpfd EXCEPT ![t] = 0]
    /\ Goto(t, "check")
    /\ UNCHANGED <<obj, mode, round, depthT, tlOwner, tlDepth, counter, fd, nextid, alive, inside, nfault>>

Check(t) ==      \* if self.is_locked: break / elif not blocking / elif timed out / else sleep
    /\ Live(t) /\ pc[t] = "check"
    /\ IF fd[O(t)] # 0 THEN Goto(t, "acquired")
       ELSE IF mode[t] = "nb" THEN Goto(t, "cleanup")
       ELSE IF mode[t] = "timed" THEN (Goto(t, "cleanup") \/ Goto(t, "os_open"))   \* time-out or poll again
       ELSE Goto(t, "os_open")
    /\ UNCHANGED <<obj, mode, round, depthT, tlOwner, tlDepth, counter, fd, tmpfd, klock, ofd, nextid, alive, inside, nfault>>

Cleanup(t) ==    \* _cleanup_thread_lock(): counter -= 1 (not below 0); thread lock release; return False
    /\ Live(t) /\ pc[t] = "cleanup"
    /\ LET o == O(t) IN
       /\ counter' = [counter EXCEPT ![o] = IF @ > 0 THEN @ - 1 ELSE 0]
       /\ tlDepth' = [tlDepth EXCEPT ![o] = @ - 1]
       /\ tlOwner' = [tlOwner EXCEPT ![o] = IF tlDepth[o] = 1 THEN None ELSE @]
    /\ Goto(t, "refused")
    /\ UNCHANGED <<obj, mode, round, depthT, fd, tmpfd, klock, ofd, nextid, alive, inside, nfault>>

Refused(t) ==    \* acquire() returns False to its caller (nothing is held, nothing was left behind)
    /\ Live(t) /\ pc[t] = "refused"
    /\ Goto(t, "idle")
    /\ round' = [round EXCEPT ![t] = @ + 1]
    /\ UNCHANGED <<obj, mode, depthT, tlOwner, tlDepth, counter, fd, tmpfd, klock, ofd, nextid, alive, inside, nfault>>

Acquired(t) ==   \* acquire() returned True: enter the critical section, or nest once more
    /\ Live(t) /\ pc[t] = "acquired"
    /\ depthT' = [depthT EXCEPT ![t] = @ + 1]
    /\ \/ /\ inside' = inside \cup {t} /\ Goto(t, "section")
       \/ /\ Reentrant /\ Nest /\ depthT[t] = 0 /\ Goto(t, "tl_acquire") /\ UNCHANGED inside
    /\ UNCHANGED <<obj, mode, round, tlOwner, tlDepth, counter, fd, tmpfd, klock, ofd, nextid, alive, nfault>>

Leave(t) ==      \* end of the critical section body; release() is called next
    /\ Live(t) /\ pc[t] = "section"
    /\ inside' = inside \ {t}
    /\ Goto(t, "rel_check")
    /\ UNCHANGED <<obj, mode, round, depthT, tlOwner, tlDepth, counter, fd, tmpfd, klock, ofd, nextid, alive, nfault>>

\* ------------------------------------------------------------------ release()
RelCheck(t) ==   \* if not self.is_locked: return ; self._decrement_lock_counter()
    /\ Live(t) /\ pc[t] = "rel_check"
    /\ IF fd[O(t)] = 0
       THEN /\ Goto(t, "rel_done") /\ UNCHANGED counter
       ELSE /\ counter' = [counter EXCEPT ![O(t)] = IF @ > 0 THEN @ - 1 ELSE 0]
            /\ Goto(t, "rel_decide")
    /\ UNCHANGED <<obj, mode, round, depthT, tlOwner, tlDepth, fd, tmpfd, klock, ofd, nextid, alive, inside, nfault>>

RelDecide(t) ==  \* if self._lock_counter == 0: self._release() (fd <- None first)
    /\ Live(t) /\ pc[t] = "rel_decide"
    /\ IF counter[O(t)] = 0
       THEN /\ tmpfd' = [tmpfd EXCEPT ![t] = fd[O(t)]]
            /\ fd' = [fd EXCEPT ![O(t)] = 0]
            /\ Goto(t, "os_unlock")
       ELSE /\ Goto(t, "tl_release") /\ UNCHANGED <<obj, tmpfd, fd>>
    /\ UNCHANGED <<obj, mode, round, depthT, tlOwner, tlDepth, counter, klock, ofd, nextid, alive, inside, nfault>>

OsUnlock(t) ==   \* self._unlock(fd)   (an OSError here is logged; the finally still closes)
    /\ Live(t) /\ pc[t] = "os_unlock"
    /\ \/ klock' = (IF klock = tmpfd[t] THEN 0 ELSE klock) /\ UNCHANGED nfault
       \/ nfault < Faults /\ nfault' = nfault + 1 /\ UNCHANGED klock
    /\ Goto(t, "os_close")
    /\ UNCHANGED <<obj, mode, round, depthT, tlOwner, tlDepth, counter, fd, tmpfd, ofd, nextid, alive, inside>>

OsClose(t) ==    \* finally: os.close(fd)   (closing drops the kernel lock in any case)
    /\ Live(t) /\ pc[t] = "os_close"
    /\ ofd' = {r \in ofd : r.id # tmpfd[t]}
    /\ klock' = IF klock = tmpfd[t] THEN 0 ELSE klock
    /\ tmpfd' = [tmpfd EXCEPT ![t] = 0]
    /\ counter' = [counter EXCEPT ![O(t)] = 0]
    /\ Goto(t, "tl_release")
    /\ UNCHANGED <<obj, mode, round, depthT, tlOwner, tlDepth, fd, nextid, alive, inside, nfault>>

TLRelease(t) ==  \* self._thread_lock.release()
    /\ Live(t) /\ pc[t] = "tl_release"
    /\ LET o == O(t) IN
       /\ tlDepth' = [tlDepth EXCEPT ![o] = IF @ > 0 THEN @ - 1 ELSE 0]
       /\ tlOwner' = [tlOwner EXCEPT ![o] = IF tlDepth[o] <= 1 THEN None ELSE @]
    /\ Goto(t, "rel_done")
    /\ UNCHANGED <<obj, mode, round, depthT, counter, fd, tmpfd, klock, ofd, nextid, alive, inside, nfault>>

RelDone(t) ==    \* release() returned; unwind one nesting level or finish the round
    /\ Live(t) /\ pc[t] = "rel_done"
    /\ depthT' = [depthT EXCEPT ![t] = @ - 1]
    /\ IF depthT[t] > 1
       THEN Goto(t, "rel_check") /\ UNCHANGED round
       ELSE Goto(t, "idle") /\ round' = [round EXCEPT ![t] = @ + 1]
    /\ UNCHANGED <<obj, mode, tlOwner, tlDepth, counter, fd, tmpfd, klock, ofd, nextid, alive, inside, nfault>>

\* ------------------------------------------------------------------ crash
Crash(p) ==      \* SIGKILL: the kernel closes every descriptor of the process
    /\ Crashes /\ alive[p]
    /\ Cardinality({q \in DOMAIN alive : alive[q]}) > 1     \* somebody survives
    /\ alive' = [alive EXCEPT ![p] = FALSE]
    /\ ofd' = {r \in ofd : r.proc # p}
    /\ klock' = IF \E r \in ofd : r.id = klock /\ r.proc = p THEN 0 ELSE klock
    /\ inside' = {t \in inside : P(t) # p}
    /\ UNCHANGED <<obj, pc, mode, round, depthT, tlOwner, tlDepth, counter, fd, tmpfd, nextid, nfault>>

\* ------------------------------------------------------------------
Step(t) == \/ Start(t) \/ TLAcquire(t) \/ IncCounter(t) \/ OsOpen(t) \/ OsLock(t) \/ SetFd(t) \/ CloseFail(t)
           \/ Check(t) \/ Cleanup(t) \/ Refused(t) \/ Acquired(t) \/ Leave(t) \/ RelCheck(t) \/ RelDecide(t)
           \/ OsUnlock(t) \/ OsClose(t) \/ TLRelease(t) \/ RelDone(t)
AllDone == \A t \in Threads : ~Live(t) \/ (pc[t] = "idle" /\ round[t] = Rounds)
Done == AllDone /\ UNCHANGED vars
Next == (\E t \in Threads : Step(t)) \/ (\E p \in DOMAIN alive : Crash(p)) \/ Done
Spec == Init /\ [][Next]_vars
FairSpec == Spec /\ \A t \in Threads : WF_vars(Step(t))

\* ------------------------------------------------------------------ properties
C02_Exclusive == Cardinality(inside) <= 1
C13_NoOrphanLock == klock # 0 => \E r \in ofd : r.id = klock /\ alive[r.proc]
FdMeansKernelLock == \A t \in Threads : Live(t) /\ fd[O(t)] # 0 => klock = fd[O(t)]
HolderHoldsTL == \A t \in inside : tlOwner[O(t)] = t
\* C12 "no residue": when every live thread is done, no descriptor, no kernel lock, no in-process lock is left
Quiet == AllDone => /\ \A r \in ofd : ~alive[r.proc]
                    /\ klock = 0
                    /\ \A t \in Threads : Live(t) => (tlOwner[O(t)] = None \/ ~Live(tlOwner[O(t)]))
\* every live thread finishes all its rounds: nobody is stuck behind a dead holder (C13) or for ever (C12)
Progress == <>[]AllDone
Bounded == /\ \A o \in Objs : counter[o] <= 3 /\ tlDepth[o] <= 3
           /\ \A t \in Threads : depthT[t] <= 2 /\ depthT[t] >= 0 /\ round[t] <= Rounds
           /\ Cardinality(ofd) <= Cardinality(Threads) + Cardinality(Objs)
\* vacuity witnesses
NeverContended == \A t \in Threads : pc[t] # "close_fail"
NeverNested == \A t \in Threads : depthT[t] < 2
=============================================================================
