SPECIFICATION Spec
CONSTANTS
 Cfg <- CfgR1
 Thrs <- T2
 MaxLen = 7
 MaxFaults = 2
 Timeouts <- TM
VIEW View
CONSTRAINT Small
ACTION_CONSTRAINT PrintTransition
CHECK_DEADLOCK FALSE
