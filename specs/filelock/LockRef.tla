------------------------------- MODULE LockRef -------------------------------
(***************************************************************************)
(* Executable reference model of what users of threading.Lock / RLock rely *)
(* on, for FileLock objects on ONE lock file (property C12), as a pure     *)
(* function Apply(state, op) -> [st, res, dtmin, dtmax, ...].              *)
(* It is used in both directions:                                          *)
(*  - as a generator: TLC enumerates / simulates operation sequences       *)
(*    (LockSeq.tla) that are replayed into the real FileLock;              *)
(*  - as a monitor: recorded executions of the real FileLock are validated *)
(*    step by step (LockTrace.tla).                                        *)
(*                                                                         *)
(* Operations are issued one at a time (C12 quantifies over operation      *)
(* sequences; concurrency is C02's subject).  Times in ms.                 *)
(*  op = [op, thr, o, blocking, timeout, fault]                            *)
(*   op      : acquire | release | release_force | ctx_enter | ctx_exit |  *)
(*             with_enter | with_exit                                      *)
(*   timeout : -2 = not given (None), -1, 0, >0                            *)
(*   fault   : "" | open | lock | unlock | close  (one OSError injected    *)
(*             into the first such OS call made by this operation)         *)
(***************************************************************************)
EXTENDS Util

NoThr == ""

\* cfg = [reentrant |-> <<b1, b2>>, deftimeout |-> <<ms, ms>>, poll |-> ms]
RInit(cfg) == [holder |-> 0,                                  \* object owning the OS lock, 0 = free
               owner  |-> [o \in DOMAIN cfg.reentrant |-> NoThr],  \* thread owning the in-process lock
               depth  |-> [o \in DOMAIN cfg.reentrant |-> 0],
               open   |-> [t \in {} |-> <<>>],                \* thr -> stack of open context managers <<o, kind>>
               cfg    |-> cfg]

IsAcquire(op) == op.op \in {"acquire", "ctx_enter", "with_enter"}

\* effective arguments after the normalisation at the top of acquire()
EffTimeout(st, op) ==
    IF op.op = "with_enter" THEN st.cfg.deftimeout[op.o]
    ELSE IF op.timeout = -2 THEN (IF op.blocking THEN st.cfg.deftimeout[op.o] ELSE -1)
    ELSE op.timeout
EffBlocking(op) ==
    IF op.op = "with_enter" THEN TRUE
    ELSE IF op.timeout = -2 THEN op.blocking
    ELSE (IF op.timeout < 0 THEN op.blocking ELSE TRUE)
\* the poll interval in force: the with-statement cannot pass one (default 50 ms), acquire / acquire_ctx get cfg.poll
PollOf(st, op) == IF op.op = "with_enter" THEN 50 ELSE st.cfg.poll
Mode(st, op) == IF ~EffBlocking(op) THEN "nb"
                ELSE IF EffTimeout(st, op) < 0 THEN "block" ELSE "timed"

Stage1Ok(st, op) == \/ st.owner[op.o] = NoThr
                    \/ st.owner[op.o] = op.thr /\ st.cfg.reentrant[op.o]
Nested(st, op) == Stage1Ok(st, op) /\ st.holder = op.o
Stage2Ok(st, op) == st.holder = 0
FaultBlocks(st, op) == op.fault \in {"open", "lock"} /\ Mode(st, op) = "nb" /\ ~Nested(st, op)
AcqSucceeds(st, op) == Stage1Ok(st, op) /\ (Nested(st, op) \/ (Stage2Ok(st, op) /\ ~FaultBlocks(st, op)))

\* an operation the sequential driver must not issue: it would wait forever / is outside the contract
Excluded(st, op) ==
    \/ IsAcquire(op) /\ Mode(st, op) = "block" /\ ~AcqSucceeds(st, op)
    \/ op.op \in {"release", "release_force"} /\ st.owner[op.o] \notin {NoThr, op.thr}
    \/ op.op \in {"ctx_exit", "with_exit"} /\
         (op.thr \notin DOMAIN st.open \/ st.open[op.thr] = <<>>)
    \/ op.op \in {"ctx_exit", "with_exit"} /\ op.thr \in DOMAIN st.open /\ st.open[op.thr] # <<>> /\
         (LET top == st.open[op.thr][Len(st.open[op.thr])] IN
            top[2] # (IF op.op = "ctx_exit" THEN "ctx" ELSE "with") \/ top[1] # op.o
            \/ st.owner[op.o] \notin {NoThr, op.thr})
    \/ op.fault # "" /\ IsAcquire(op) /\ op.fault \notin {"open", "lock"}
    \/ op.fault # "" /\ ~IsAcquire(op) /\ op.fault \notin {"unlock", "close"}
    \/ op.fault # "" /\ IsAcquire(op) /\ (Nested(st, op) \/ ~Stage1Ok(st, op))  \* no OS call is made
    \/ op.fault # "" /\ ~IsAcquire(op) /\ ~(st.holder = op.o /\ (st.depth[op.o] <= 1 \/ op.op = "release_force"))

Push(st, thr, x) == Put(st.open, thr, Append(Get(st.open, thr, <<>>), x))
Pop(st, thr) == Put(st.open, thr, SubSeq(st.open[thr], 1, Len(st.open[thr]) - 1))

DoRelease(st, o, force) ==
    IF st.holder # o THEN st                         \* releasing an unheld lock is a no-op
    ELSE IF st.depth[o] <= 1 \/ force
         THEN [st EXCEPT !.holder = 0, !.owner[o] = NoThr, !.depth[o] = 0]
         ELSE [st EXCEPT !.depth[o] = @ - 1]

\* Apply: the expected effect and observable result of one operation
\*  res: "true" | "false" | "none" | "ok" | "timeout" (TimeoutError)
Apply(st, op) ==
    IF IsAcquire(op) THEN
        LET ok   == AcqSucceeds(st, op)
            mode == Mode(st, op)
            tmo  == EffTimeout(st, op)
            st1  == IF ok THEN [st EXCEPT !.holder = op.o, !.owner[op.o] = op.thr, !.depth[op.o] = @ + 1]
                    ELSE st
            st2  == IF ok /\ op.op = "ctx_enter" THEN [st1 EXCEPT !.open = Push(st1, op.thr, <<op.o, "ctx">>)]
                    ELSE IF ok /\ op.op = "with_enter" THEN [st1 EXCEPT !.open = Push(st1, op.thr, <<op.o, "with">>)]
                    ELSE st1
            res  == IF op.op = "acquire" THEN (IF ok THEN "true" ELSE "false")
                    ELSE (IF ok THEN "ok" ELSE "timeout")
            \* duration bounds (virtual ms): immediate unless it has to wait / retry
            retry == ok /\ op.fault \in {"open", "lock"}
            \* sequential histories: the in-process stage waits only if it is going to fail (then it takes its
            \* whole time-out); otherwise only the OS stage waits: its time-out plus one poll interval
            dmax == IF mode = "nb" THEN 0
                    ELSE IF ok THEN (IF retry THEN PollOf(st, op) ELSE 0)
                    ELSE IF ~Stage1Ok(st, op) THEN tmo
                    ELSE tmo + PollOf(st, op)
            dmin == IF ok \/ mode = "nb" THEN 0 ELSE tmo
        IN [st |-> st2, res |-> res, dmin |-> dmin, dmax |-> dmax]
    ELSE IF op.op \in {"release", "release_force"} THEN
        [st |-> DoRelease(st, op.o, op.op = "release_force"), res |-> "none", dmin |-> 0, dmax |-> 0]
    ELSE \* ctx_exit / with_exit: leave the innermost open context manager of this thread
        LET st1 == [st EXCEPT !.open = Pop(st, op.thr)]
        IN [st |-> DoRelease(st1, op.o, FALSE), res |-> "none", dmin |-> 0, dmax |-> 0]

\* observables of a state
Locked(st) == [o \in DOMAIN st.depth |-> st.holder = o]
OpenFds(st) == IF st.holder = 0 THEN 0 ELSE 1
=============================================================================
