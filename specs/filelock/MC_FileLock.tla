---------------------------- MODULE MC_FileLock ----------------------------
EXTENDS FileLock
T2 == {"t1", "t2"}
T3 == {"t1", "t2", "t3"}
O1 == {"o1"}
O2 == {"o1", "o2"}
O3 == {"o1", "o2", "o3"}
\* two threads sharing one object in one process
Obj_shared2 == [t \in T2 |-> {"o1"}]
Proc_one2 == [t \in T2 |-> "p1"]
\* two objects in one process
Obj_own2 == ("t1" :> {"o1"}) @@ ("t2" :> {"o2"})
Obj_any2 == [t \in T2 |-> {"o1", "o2"}]
\* two processes
Proc_two2 == ("t1" :> "p1") @@ ("t2" :> "p2")
\* three threads: t1,t2 share o1 in p1; t3 has o2 in p2
Obj_mix3 == ("t1" :> {"o1"}) @@ ("t2" :> {"o1"}) @@ ("t3" :> {"o2"})
Proc_mix3 == ("t1" :> "p1") @@ ("t2" :> "p1") @@ ("t3" :> "p2")
Obj_own3 == ("t1" :> {"o1"}) @@ ("t2" :> {"o2"}) @@ ("t3" :> {"o3"})
Proc_three3 == ("t1" :> "p1") @@ ("t2" :> "p2") @@ ("t3" :> "p3")
=============================================================================
