SPECIFICATION Spec
CONSTANTS
 Threads <- T2
 Objs <- O2
 ObjOf <- Obj_own2
 ProcOf <- Proc_one2
 Reentrant = FALSE
 Rounds = 1
 Crashes = FALSE
 Nest = FALSE
 Faults = 0
INVARIANT NeverContended
