------------------------------- MODULE LockSeq -------------------------------
(* Generator: operation sequences of the reference model, to be replayed into the real
   FileLock.  With VIEW st TLC visits every reachable reference state once (by its shortest
   history) and evaluates every operation enabled there; the ACTION_CONSTRAINT prints the
   history of every such transition: a cover of all (state, operation) pairs. *)
EXTENDS LockRef
CONSTANTS Cfg, Thrs, MaxLen, MaxFaults, Timeouts
VARIABLES st, hist, nf
vars == <<st, hist, nf>>

Objs == DOMAIN Cfg.reentrant
AcqOps(kind) == {[op |-> kind, thr |-> t, o |-> o, blocking |-> b, timeout |-> x, fault |-> f] :
                   t \in Thrs, o \in Objs, b \in BOOLEAN, x \in Timeouts, f \in {"", "open", "lock"}}
WithOps == {[op |-> "with_enter", thr |-> t, o |-> o, blocking |-> TRUE, timeout |-> -2, fault |-> f] :
                   t \in Thrs, o \in Objs, f \in {"", "open", "lock"}}
RelOps == {[op |-> k, thr |-> t, o |-> o, blocking |-> TRUE, timeout |-> -2, fault |-> f] :
                   k \in {"release", "release_force", "ctx_exit", "with_exit"}, t \in Thrs, o \in Objs,
                   f \in {"", "unlock", "close"}}
Ops == AcqOps("acquire") \cup AcqOps("ctx_enter") \cup WithOps \cup RelOps

Init == st = RInit(Cfg) /\ hist = <<>> /\ nf = 0
Do(op) == /\ Len(hist) < MaxLen
          /\ ~Excluded(st, op)
          /\ (op.fault # "" => nf < MaxFaults)
          /\ (op.op \in {"ctx_exit", "with_exit"} => op.fault = "")
          /\ st' = Apply(st, op).st
          /\ hist' = Append(hist, <<op.op, op.thr, op.o, op.blocking, op.timeout, op.fault>>)
          /\ nf' = IF op.fault # "" THEN nf + 1 ELSE nf
Next == \E op \in Ops : Do(op)
Spec == Init /\ [][Next]_vars

View == <<st.holder, st.owner, st.depth, nf>>
Small == /\ \A o \in Objs : st.depth[o] <= 3
         /\ \A t \in DOMAIN st.open : Len(st.open[t]) <= 2
PrintTransition == PrintT(<<"SEQ", hist'>>)
PrintFull == (Len(hist) = MaxLen) => PrintT(<<"SEQ", hist>>)
=============================================================================
