----------------------------- MODULE LockContract -----------------------------
(***************************************************************************)
(* Contract monitors for FileLock over harness-observed events.            *)
(*  C12 (sequential histories): every Op event is compared with the        *)
(*      reference model LockRef!Apply.                                     *)
(*  C02 (concurrent contenders): Enter/Exit of the harness-owned critical  *)
(*      section and AcqRet/RelCall of every contender.                     *)
(* Events: Config{reentrant,deftimeout,poll}                               *)
(*   Op{op,thr,o,blocking,timeout,fault,res,dt,locked,fds,tl}              *)
(*   AcqCall{h,thr,o,form,blocking,timeout} AcqRet{h,res} RelCall{h}       *)
(*   RelRet{h} Enter{h} Exit{h}  End{status,fds}                           *)
(***************************************************************************)
EXTENDS LockRef

Props == {"C02", "C12"}

MInit == [ref |-> RInit([reentrant |-> <<>>, deftimeout |-> <<>>, poll |-> 50]),
          \* C02
          who    |-> EmptyFn,    \* h -> <<thr, o>>
          inside |-> {},         \* handles inside the critical section
          held   |-> EmptyFn,    \* <<thr, o>> -> depth of successful, unreleased acquires
          bad    |-> [p \in Props |-> Ok]]

Holder(m, h) == m.who[h]
Others(m, id) == {x \in DOMAIN m.held : m.held[x] > 0 /\ x # id}

C12Step(m, e, idx) ==
    LET op == [op |-> e.op, thr |-> e.thr, o |-> e.o, blocking |-> e.blocking,
               timeout |-> e.timeout, fault |-> e.fault]
    IN IF Excluded(m.ref, op)
       THEN [m EXCEPT !.bad = Flag(@, "C12", "C12_DriverIssuedExcludedOp", idx)]
       ELSE
       LET a == Apply(m.ref, op)
           obsLocked == [o \in DOMAIN e.locked |-> e.locked[o]]
           mode == IF IsAcquire(op) THEN Mode(m.ref, op) ELSE "rel"
           b1 == IF e.res # a.res
                 THEN Flag(m.bad, "C12", IF IsAcquire(op) THEN "C12_TruthfulAcquire" ELSE "C12_ReleaseRaised", idx)
                 ELSE m.bad
           b2 == IF obsLocked # Locked(a.st) THEN Flag(b1, "C12", "C12_IsLocked", idx) ELSE b1
           b3 == IF e.fds # OpenFds(a.st) THEN Flag(b2, "C12", "C12_NoLeak_fd", idx) ELSE b2
           b4 == IF [o \in DOMAIN e.tl |-> e.tl[o]] # a.st.owner
                 THEN Flag(b3, "C12", "C12_InProcessLock", idx) ELSE b3
           b5 == IF e.dt > a.dmax
                 THEN Flag(b4, "C12", IF mode = "nb" THEN "C12_NonBlockingImmediate" ELSE "C12_TimedBound", idx)
                 ELSE IF e.dt < a.dmin THEN Flag(b4, "C12", "C12_TimedTooEarly", idx) ELSE b4
       IN [m EXCEPT !.ref = a.st, !.bad = b5]

MStep(m, e, idx) ==
  CASE e.e = "Config" ->
        [m EXCEPT !.ref = RInit([reentrant |-> e.reentrant, deftimeout |-> e.deftimeout, poll |-> e.poll])]
    [] e.e = "Op" -> C12Step(m, e, idx)
    [] e.e = "AcqCall" -> [m EXCEPT !.who = Put(@, e.h, <<e.thr, e.o>>)]
    [] e.e = "AcqRet" ->
        IF e.res # "true" THEN m
        ELSE LET id == Holder(m, e.h) IN
             [m EXCEPT !.held = Put(@, id, Get(m.held, id, 0) + 1),
                       !.bad = IF Others(m, id) # {} THEN Flag(@, "C02", "C02_HolderIsAcquirer", idx) ELSE @]
    [] e.e = "RelCall" ->
        LET id == Holder(m, e.h) IN [m EXCEPT !.held = Put(@, id, Get(m.held, id, 1) - 1)]
    [] e.e = "Enter" ->
        LET id == Holder(m, e.h)
            foreign == {h \in m.inside : Holder(m, h) # id} IN
        [m EXCEPT !.inside = @ \cup {e.h},
                  !.bad = IF foreign # {} THEN Flag(@, "C02", "C02_Exclusive", idx) ELSE @]
    [] e.e = "Exit" -> [m EXCEPT !.inside = @ \ {e.h}]
    \* after all rounds of all threads nothing is left behind: any object can take the lock, no descriptor is open
    [] e.e = "FinalProbe" ->
        [m EXCEPT !.bad = IF ~e.ok THEN Flag(@, "C12", "C12_Residue", idx)
                          ELSE IF e.fds # 0 THEN Flag(@, "C12", "C12_NoLeak_fd", idx) ELSE @]
    \* ... and before anything is probed: no object still claims the lock, holds its in-process lock or a descriptor
    [] e.e = "FinalState" ->
        [m EXCEPT !.bad = IF \E i \in DOMAIN e.locked : e.locked[i] THEN Flag(@, "C12", "C12_IsLocked", idx)
                          ELSE IF \E i \in DOMAIN e.tl : e.tl[i] # "none" THEN Flag(@, "C12", "C12_InProcessLock", idx)
                          ELSE IF e.fds # 0 THEN Flag(@, "C12", "C12_NoLeak_fd", idx) ELSE @]
    [] e.e = "SpuriousRelRaised" -> [m EXCEPT !.bad = Flag(@, "C12", "C12_UnheldReleaseNoop", idx)]
    [] e.e = "End" ->
        IF e.status # "ok" THEN [m EXCEPT !.bad = Flag(Flag(@, "C02", "C02_Hang", idx), "C12", "C12_Hang", idx)]
        ELSE m
    [] OTHER -> m
=============================================================================
