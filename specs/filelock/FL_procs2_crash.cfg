SPECIFICATION Spec
CONSTANTS
 Threads <- T2
 Objs <- O2
 ObjOf <- Obj_own2
 ProcOf <- Proc_two2
 Reentrant = FALSE
 Rounds = 2
 Crashes = TRUE
 Nest = FALSE
 Faults = 1
INVARIANT C02_Exclusive
INVARIANT C13_NoOrphanLock
INVARIANT FdMeansKernelLock
INVARIANT HolderHoldsTL
INVARIANT Quiet
