SPECIFICATION Spec
CONSTANTS
 Threads <- T2
 Objs <- O1
 ObjOf <- Obj_shared2
 ProcOf <- Proc_one2
 Reentrant = TRUE
 Rounds = 1
 Crashes = FALSE
 Nest = TRUE
 Faults = 0
INVARIANT NeverNested
