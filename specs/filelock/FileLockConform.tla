-------------------------- MODULE FileLockConform --------------------------
(***************************************************************************)
(* Implementation conformance (code -> spec) for the file lock: one        *)
(* recorded execution of controlled threads on the real FileLock (real     *)
(* descriptors, real flock) is accepted iff FileLock.tla has a behaviour   *)
(* in which every contender passes the same observable points in the same  *)
(* order - acquire called (object, mode), acquire returned (True / False), *)
(* section left + release called, release returned - with the line-level   *)
(* steps of acquire()/release() as silent actions in between, and whose    *)
(* projected state equals, at every observable point, the state read from  *)
(* the real objects: is_locked, _lock_counter and the owner of the         *)
(* in-process lock of every FileLock object.                               *)
(***************************************************************************)
EXTENDS FileLock, Json, IOUtils

T == JsonDeserialize(IOEnv.TRACE_FILE)

VARIABLES l, sil
cvars == <<vars, l, sil>>

ObjName(i) == "o" \o ToString(i)
Proj == [o \in Objs |-> <<fd[o] # 0, counter[o], tlOwner[o]>>]
Logged(e) == [o \in Objs |-> LET r == e.st[o] IN <<r[1], r[2], r[3]>>]

CInit == Init /\ l = 1 /\ sil = 0 /\ TLCSet(1, 0)

Match(e) ==
    LET t == e.thr IN
    CASE e.e = "AcqCall" -> /\ Start(t) /\ obj'[t] = e.obj /\ mode'[t] = e.mode
      [] e.e = "AcqRet" /\ e.res = "true" -> /\ Acquired(t) /\ pc'[t] = "section"
      [] e.e = "AcqRet" -> Refused(t)
      [] e.e = "Exit" -> Leave(t)
      [] e.e = "RelRet" -> RelDone(t)
      [] OTHER -> FALSE

Consume == /\ l <= Len(T)
           /\ Match(T[l])
           \* (a refused acquire is logged after it returned; others may have moved on since it gave up)
           /\ (T[l].e = "AcqRet" /\ T[l].res # "true") \/ Proj' = Logged(T[l])
           /\ l' = l + 1 /\ sil' = 0
\* the line-level steps between two observable points
Internal(t) == \/ TLAcquire(t) \/ Cleanup(t) \/ IncCounter(t) \/ OsOpen(t) \/ OsLock(t) \/ SetFd(t)
               \/ CloseFail(t) \/ Check(t) \/ (Acquired(t) /\ pc'[t] # "section")
               \/ RelCheck(t) \/ RelDecide(t) \/ OsUnlock(t) \/ OsClose(t) \/ TLRelease(t)
Silent == /\ l <= Len(T)
          /\ sil < 200
          /\ \E t \in Threads : Internal(t)
          /\ l' = l /\ sil' = sil + 1
CNext == Consume \/ Silent
Reached == IF l > TLCGet(1) THEN TLCSet(1, l) /\ PrintT(<<"REACHED", 1, l, Len(T) + 1>>) ELSE TRUE
NotYetAccepted == TLCGet(1) <= Len(T)
=============================================================================
