---------------------------- MODULE SplitContract ----------------------------
(***************************************************************************)
(* aiuti.itertools.split transcribed (C18): the expected output of every   *)
(* next() call on the two result iterators, for every consumption order.   *)
(*  cfg = [src : Seq(Val), kind : "bools" | "fn_val" | "fn_idx", c : Seq]  *)
(*   bools : c[i] is the i-th element of the condition iterable            *)
(*   fn_val: c[v] is the (stateless) predicate's result for value v        *)
(*   fn_idx: c[i] is the predicate's result at its i-th call (stateful)    *)
(* Events: Config{src,kind,c} Created{pulls,calls} Next{w,stop,val,pulls,  *)
(*  calls} End                                                             *)
(***************************************************************************)
EXTENDS Util
Props == {"C18"}

NOf(cfg) == IF cfg.kind = "bools" THEN Min(Len(cfg.src), Len(cfg.c)) ELSE Len(cfg.src)
FlagAt(cfg, i) == IF cfg.kind = "fn_val" THEN cfg.c[cfg.src[i]] ELSE cfg.c[i]
RECURSIVE Sel(_, _, _)
Sel(cfg, i, want) == IF i > NOf(cfg) THEN <<>>
                     ELSE IF FlagAt(cfg, i) = want THEN <<i>> \o Sel(cfg, i + 1, want)
                     ELSE Sel(cfg, i + 1, want)
IdxT(cfg) == Sel(cfg, 1, TRUE)
IdxF(cfg) == Sel(cfg, 1, FALSE)

MInit == [cfg |-> [src |-> <<>>, kind |-> "bools", c |-> <<>>], pT |-> 0, pF |-> 0, lastp |-> 0,
          bad |-> [p \in Props |-> Ok]]

MStep(m, e, idx) ==
  CASE e.e = "Config" -> [m EXCEPT !.cfg = [src |-> e.src, kind |-> e.kind, c |-> e.c]]
    [] e.e = "Created" ->
        [m EXCEPT !.bad = IF e.pulls # 0 \/ e.calls # 0 THEN Flag(@, "C18", "C18_Lazy", idx) ELSE @]
    [] e.e = "Next" ->
        LET cfg == m.cfg
            ix == IF e.w = "T" THEN IdxT(cfg) ELSE IdxF(cfg)
            p == IF e.w = "T" THEN m.pT ELSE m.pF
            more == p < Len(ix)
            okres == IF more THEN ~e.stop /\ e.val = cfg.src[ix[p + 1]] ELSE e.stop
            need == IF more THEN ix[p + 1] ELSE Len(cfg.src)
            b1 == IF ~okres THEN Flag(m.bad, "C18", "C18_Partition", idx) ELSE m.bad
            b2 == IF e.pulls > Len(cfg.src) THEN Flag(b1, "C18", "C18_SourceOnce", idx) ELSE b1
            b3 == IF cfg.kind # "bools" /\ e.calls > Min(e.pulls, Len(cfg.src))
                  THEN Flag(b2, "C18", "C18_PredicateOnce", idx) ELSE b2
            b4 == IF okres /\ e.pulls > Max(m.lastp, need + 1) THEN Flag(b3, "C18", "C18_Lazy", idx) ELSE b3
        IN [m EXCEPT !.bad = b4, !.lastp = e.pulls,
                     !.pT = IF e.w = "T" /\ more THEN @ + 1 ELSE @,
                     !.pF = IF e.w = "F" /\ more THEN @ + 1 ELSE @]
    [] e.e = "Exhaust" ->
        [m EXCEPT !.bad = IF e.ret # "None" \/ e.left # 0 THEN Flag(@, "C18", "C18_Exhaust", idx) ELSE @]
    [] OTHER -> m
=============================================================================
