------------------------------- MODULE SplitGen -------------------------------
(* Generator for C18: every configuration (source, condition) within the bounds and every
   order of next() calls on the two result iterators, including abandoning one of them.
   Terminal states print <<"CASE", src, kind, c, hist>>. *)
EXTENDS SplitContract
CONSTANTS MaxLen
Vals == {1, 2}
VARIABLES cfg, pT, pF, dT, dF, hist
vars == <<cfg, pT, pF, dT, dF, hist>>
Seqs(S, n) == UNION {[1..k -> S] : k \in 0..n}
Cfgs == {[src |-> s, kind |-> "bools", c |-> c] : s \in Seqs(Vals, MaxLen), c \in Seqs(BOOLEAN, MaxLen + 1)}
        \cup {[src |-> s, kind |-> "fn_val", c |-> c] : s \in Seqs(Vals, MaxLen), c \in [1..2 -> BOOLEAN]}
        \cup UNION {{[src |-> s, kind |-> "fn_idx", c |-> c] : c \in [1..Len(s) -> BOOLEAN]} : s \in Seqs(Vals, MaxLen)}
Init == cfg \in Cfgs /\ pT = 0 /\ pF = 0 /\ dT = FALSE /\ dF = FALSE /\ hist = <<>>
NextT == /\ ~dT /\ hist' = Append(hist, "T")
         /\ IF pT < Len(IdxT(cfg)) THEN pT' = pT + 1 /\ dT' = FALSE ELSE pT' = pT /\ dT' = TRUE
         /\ UNCHANGED <<cfg, pF, dF>>
NextF == /\ ~dF /\ hist' = Append(hist, "F")
         /\ IF pF < Len(IdxF(cfg)) THEN pF' = pF + 1 /\ dF' = FALSE ELSE pF' = pF /\ dF' = TRUE
         /\ UNCHANGED <<cfg, pT, dT>>
AbandonT == ~dT /\ dT' = TRUE /\ UNCHANGED <<cfg, pT, pF, dF, hist>>
AbandonF == ~dF /\ dF' = TRUE /\ UNCHANGED <<cfg, pT, pF, dT, hist>>
Next == NextT \/ NextF \/ AbandonT \/ AbandonF
Spec == Init /\ [][Next]_vars
Terminal == dT /\ dF
PrintCase == Terminal => PrintT(<<"CASE", cfg.src, cfg.kind, cfg.c, hist>>)
=============================================================================
