SPECIFICATION Spec
CONSTANT MaxLen = 3
CONSTRAINT PrintCase
CHECK_DEADLOCK FALSE
