------------------------------- MODULE ParseGen -------------------------------
(* Generator for C19: every item list of length 0..MaxItems over the fragment classes, in every shape,
   parse_keys on/off, default and raising parser. *)
EXTENDS ParseContract
CONSTANTS MaxItems
VARIABLES items, shape, pk, parser
vars == <<items, shape, pk, parser>>
KeyFrags(sh) == IF sh \in {"strings", "nosep"} THEN Strs ELSE Strs \cup Objs
ValFrags(sh) == IF sh \in {"strings", "nosep"} THEN Strs ELSE Strs \cup Objs
Init == /\ shape \in {"mapping", "pairs", "strings", "nosep"}
        /\ pk \in BOOLEAN
        /\ parser \in {"default", "raising"}
        /\ items \in UNION {[1..k -> KeyFrags(shape) \X ValFrags(shape)] : k \in 0..MaxItems}
        /\ (shape = "nosep" => Len(items) >= 1)
        \* a mapping cannot hold two equal raw keys
        /\ (shape = "mapping" => \A i, j \in 1..Len(items) : i # j => items[i][1] # items[j][1])
        /\ (shape = "mapping" => \A i \in 1..Len(items) : items[i][1] # "obj_tuple" \/ TRUE)
Next == UNCHANGED vars
Spec == Init /\ [][Next]_vars
PrintCase == PrintT(<<"CASE", items, shape, pk, parser>>)
=============================================================================
