SPECIFICATION Spec
CONSTANTS
 MaxArgs = 2
 Names = {"a", "b"}
 MaxKw = 2
 MaxOps = 4
CONSTRAINT PrintCase
CHECK_DEADLOCK FALSE
