------------------------------ MODULE GatherGen ------------------------------
(* Generator for C20: all lists of 0..MaxN awaitables [delay, outcome], every `only`, both functions. *)
EXTENDS GatherContract
CONSTANTS MaxN, Delays
Outs == {"ok", "Base", "Sub", "Unrel", "BaseOnly"}
Onlys == {"BaseException", "Exception", "Base", "Sub", "Unrel", "BaseOnly"}
VARIABLES aws, only, fn
vars == <<aws, only, fn>>
Aw == {<<d, o>> : d \in Delays, o \in Outs}
Init == /\ aws \in UNION {[1..k -> Aw] : k \in 0..MaxN}
        /\ only \in Onlys
        /\ fn \in {"gather_excs", "raise_first_exc"}
Next == UNCHANGED vars
Spec == Init /\ [][Next]_vars
PrintCase == PrintT(<<"CASE", aws, only, fn, Expected(aws, only)>>)
=============================================================================
