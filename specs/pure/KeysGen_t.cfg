SPECIFICATION Spec
CONSTANTS
 MaxArgs = 2
 Names = {"a", "b", "c"}
 MaxKw = 2
 MaxOps = 5
CONSTRAINT PrintCase
CHECK_DEADLOCK FALSE
