SPECIFICATION Spec
CONSTANTS
 MaxN = 2
 Delays = {0, 1, 2}
CONSTRAINT PrintCase
CHECK_DEADLOCK FALSE
