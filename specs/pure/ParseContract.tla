---------------------------- MODULE ParseContract ----------------------------
(***************************************************************************)
(* aiuti.parsing.parse_to_dict transcribed over fragment classes (C19).    *)
(* A fragment is a name; the concrete text / object of each fragment and   *)
(* the literal it denotes live in a hand-written table in the harness      *)
(* (harness/drivers/pure_parse.py), independent of ast.literal_eval.       *)
(*  string fragments : Lits (denote a literal) \cup NonLits                *)
(*  "withsep" is the text  x<SEP>y  (contains the separator)               *)
(*  object fragments : Objs (non-string values / keys, passed through)     *)
(* item = <<k, v>>; shapes: mapping | pairs | strings | nosep (a string    *)
(* item without the separator)                                             *)
(* Events: Config{items,shape,pk,parser} Result{kind,pairs,trips} End      *)
(*  observed pair = <<<<kkind, ktoks>>, <<vkind, vtoks>>>>                 *)
(***************************************************************************)
EXTENDS Util
Props == {"C19"}
Lits == {"int", "int2", "float", "qstr", "qlit", "tuple", "list", "dict", "none", "true", "neg", "padded", "trail"}
NonLits == {"bare", "call", "attr", "op", "litcall", "litsub", "empty", "unhash", "withsep"}
Objs == {"obj_int", "obj_tuple", "obj_none"}
Strs == Lits \cup NonLits
SEP == "<SEP>"
Toks(f) == IF f = "withsep" THEN <<"x", SEP, "y">> ELSE <<f>>

\* the denotation of a token sequence under the parser
Den(toks, parser) ==
    IF parser = "default" /\ Len(toks) = 1 /\ toks[1] \in Lits THEN <<"lit", toks>> ELSE <<"raw", toks>>
DenFrag(f, isParsed, parser) ==
    IF f \in Objs THEN <<"obj", <<f>>>>
    ELSE IF isParsed THEN Den(Toks(f), parser) ELSE <<"raw", Toks(f)>>

RECURSIVE FirstSep(_, _)
FirstSep(toks, i) == IF i > Len(toks) THEN 0 ELSE IF toks[i] = SEP THEN i ELSE FirstSep(toks, i + 1)

\* expected (key, value) of one item
ItemPair(item, shape, pk, parser) ==
    IF shape = "strings"
    THEN LET all == Toks(item[1]) \o <<SEP>> \o Toks(item[2])
             p == FirstSep(all, 1)
             kt == SubSeq(all, 1, p - 1)
             vt == SubSeq(all, p + 1, Len(all))
         IN << IF pk THEN Den(kt, parser) ELSE <<"raw", kt>>, Den(vt, parser) >>
    ELSE << DenFrag(item[1], pk, parser), DenFrag(item[2], TRUE, parser) >>

\* keys that Python treats as equal:  1 == True
KeyClass(d) == IF d[1] = "lit" /\ d[2] \in {<<"int">>, <<"true">>, <<"padded">>, <<"trail">>} THEN <<"lit", <<"int">>>>
               ELSE IF d = <<"obj", <<"obj_none">>>> THEN <<"lit", <<"none">>>>
               ELSE d
ValClass(d) == IF d[1] = "lit" /\ d[2] \in {<<"padded">>, <<"trail">>} THEN <<"lit", <<"int">>>>
               ELSE IF d = <<"obj", <<"obj_none">>>> THEN <<"lit", <<"none">>>>
               ELSE d

\* the expected dictionary as a function key class -> value (later pair wins)
RECURSIVE Fold(_, _, _, _, _, _)
Fold(items, shape, pk, parser, i, acc) ==
    IF i > Len(items) THEN acc
    ELSE LET p == ItemPair(items[i], shape, pk, parser)
         IN Fold(items, shape, pk, parser, i + 1, Put(acc, KeyClass(p[1]), ValClass(p[2])))
Expected(items, shape, pk, parser) == Fold(items, shape, pk, parser, 1, [x \in {} |-> 0])

RECURSIVE Obs(_, _, _)
Obs(pairs, i, acc) == IF i > Len(pairs) THEN acc
                      ELSE Obs(pairs, i + 1, Put(acc, KeyClass(pairs[i][1]), ValClass(pairs[i][2])))

\* a parsed key that denotes an unhashable literal cannot be a dictionary key: no dictionary exists, not judged
Unhashable == {<<"lit", <<"list">>>>, <<"lit", <<"dict">>>>}
Judged(items, shape, pk, parser) ==
    \A i \in 1..Len(items) : ItemPair(items[i], shape, pk, parser)[1] \notin Unhashable

MInit == [items |-> <<>>, shape |-> "pairs", pk |-> TRUE, parser |-> "default", bad |-> [p \in Props |-> Ok]]
MStep(m, e, idx) ==
  CASE e.e = "Config" -> [m EXCEPT !.items = e.items, !.shape = e.shape, !.pk = e.pk, !.parser = e.parser]
    [] e.e = "Result" ->
        LET b0 == IF e.trips # 0 THEN Flag(m.bad, "C19", "C19_NoEvaluation", idx) ELSE m.bad IN
        IF m.shape = "nosep" /\ ~Judged(SubSeq(m.items, 1, Len(m.items) - 1), "strings", m.pk, m.parser)
        THEN [m EXCEPT !.bad = b0]
        ELSE IF m.shape = "nosep"
        THEN [m EXCEPT !.bad = IF e.kind # "ValueError" THEN Flag(b0, "C19", "C19_MissingSeparator", idx) ELSE b0]
        ELSE IF ~Judged(m.items, m.shape, m.pk, m.parser) THEN [m EXCEPT !.bad = b0]
        ELSE IF e.kind # "dict" THEN [m EXCEPT !.bad = Flag(b0, "C19", "C19_Raised_" \o e.kind, idx)]
        ELSE LET want == Expected(m.items, m.shape, m.pk, m.parser)
                 got == Obs(e.pairs, 1, [x \in {} |-> 0])
             IN [m EXCEPT !.bad = IF got = want THEN b0
                                  ELSE IF DOMAIN got # DOMAIN want THEN Flag(b0, "C19", "C19_Keys", idx)
                                  ELSE Flag(b0, "C19", "C19_Values", idx)]
    [] OTHER -> m
=============================================================================
