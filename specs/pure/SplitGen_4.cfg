SPECIFICATION Spec
CONSTANT MaxLen = 4
CONSTRAINT PrintCase
CHECK_DEADLOCK FALSE
