----------------------------- MODULE KeysContract -----------------------------
(***************************************************************************)
(* threadsafe_async_cache key construction and caller-supplied mapping     *)
(* (C14).  Values are equality classes; the harness concretises one class  *)
(* as several equal-but-distinct Python objects.                           *)
(*  sig = [args : Seq(Val), kw : Seq(<<name, Val>>)]  (kw in call order)   *)
(* mode "pair": two calls s1, s2 (sequentially or concurrently)            *)
(* mode "ops" : ops = Seq(<<"call", k>> | <<"evict", k>>) on a caller-     *)
(*              supplied mapping; lru = 0 (plain mapping) or its capacity  *)
(* Events: Config{mode,s1,s2,ops,lru} FuncStart{j} CallEnd{j,inv} Evict{k} *)
(***************************************************************************)
EXTENDS Util
Props == {"C14"}
SigEq(a, b) == a.args = b.args /\ SeqToSet(a.kw) = SeqToSet(b.kw)

MInit == [mode |-> "pair", s1 |-> [args |-> <<>>, kw |-> <<>>], s2 |-> [args |-> <<>>, kw |-> <<>>],
          ops |-> <<>>, lru |-> 0,
          started |-> {}, pos |-> 0,
          store |-> EmptyFn,      \* key -> call index that computed the stored value
          order |-> <<>>,         \* LRU recency order, least recent first
          bad |-> [p \in Props |-> Ok]]

Touch(order, k) == SelectSeq(order, LAMBDA x : x # k) \o <<k>>

\* expected effect of the j-th op being a call of key k: [hit, store, order, evicted]
CallEffect(m, k, j) ==
    IF k \in DOMAIN m.store
    THEN [hit |-> TRUE, inv |-> m.store[k], store |-> m.store,
          order |-> IF m.lru > 0 THEN Touch(m.order, k) ELSE m.order]
    ELSE LET full == m.lru > 0 /\ Len(m.order) >= m.lru
             victim == IF full THEN m.order[1] ELSE ""
             st1 == IF full THEN Drop(m.store, victim) ELSE m.store
             or1 == IF full THEN Tail(m.order) ELSE m.order
         IN [hit |-> FALSE, inv |-> j, store |-> Put(st1, k, j),
             order |-> IF m.lru > 0 THEN Append(or1, k) ELSE or1]

MStep(m, e, idx) ==
  CASE e.e = "Config" -> [m EXCEPT !.mode = e.mode, !.s1 = e.s1, !.s2 = e.s2, !.ops = e.ops, !.lru = e.lru]
    [] e.e = "FuncStart" -> [m EXCEPT !.started = @ \cup {e.j}]
    [] e.e = "CallEnd" /\ m.mode = "pair" ->
        LET share == SigEq(m.s1, m.s2)
            want == IF e.j = 1 THEN 1 ELSE IF share THEN 1 ELSE 2
        IN [m EXCEPT !.bad = IF e.inv # want /\ e.inv # -2      \* -2: the function returned None (untagged result)
                               THEN Flag(@, "C14", IF share THEN "C14_Shares" ELSE "C14_NeverCross", idx) ELSE @]
    [] e.e = "CallEnd" /\ m.mode = "twofuncs" ->
        \* one configured decorator applied to two functions f, g: calls f, g, f, g with equal arguments;
        \* each function has its own cache: call 3 gets call 1's value, call 4 gets call 2's
        LET want == IF e.j <= 2 THEN e.j ELSE e.j - 2
        IN [m EXCEPT !.bad = IF e.inv # want /\ e.inv # -2 THEN Flag(@, "C14", "C14_PerFunctionCache", idx) ELSE @]
    [] e.e = "PairEnd" /\ m.mode = "twofuncs" ->
        [m EXCEPT !.bad = IF m.started # {1, 2} THEN Flag(@, "C14", "C14_PerFunctionCache", idx) ELSE @]
    [] e.e = "PairEnd" ->
        LET share == SigEq(m.s1, m.s2)
            want == IF share THEN {1} ELSE {1, 2}
        IN [m EXCEPT !.bad = IF m.started # want
                               THEN Flag(@, "C14", IF share THEN "C14_Shares" ELSE "C14_NeverCross", idx) ELSE @]
    [] e.e = "CallEnd" /\ m.mode = "ops" ->
        LET k == m.ops[e.j][2]
            eff == CallEffect(m, k, e.j)
            b1 == IF e.inv # eff.inv /\ e.inv # -2 THEN Flag(m.bad, "C14", "C14_ValueOfKey", idx) ELSE m.bad
            b2 == IF (e.j \in m.started) = eff.hit THEN Flag(b1, "C14", "C14_OneRecompute", idx) ELSE b1
        IN [m EXCEPT !.store = eff.store, !.order = eff.order, !.bad = b2]
    \* a call that never ends (the harness found the loop spinning or everything blocked) is no answer at all
    [] e.e = "End" /\ e.status # "ok" -> [m EXCEPT !.bad = Flag(@, "C14", "C14_NoAnswer", idx)]
    [] e.e = "Evict" -> [m EXCEPT !.store = Drop(@, e.k), !.order = SelectSeq(@, LAMBDA x : x # e.k)]
    [] OTHER -> m
=============================================================================
