------------------------------- MODULE KeysGen -------------------------------
(* Generator for C14: all pairs of call signatures within the bounds, and all op sequences on
   a caller-supplied mapping (explicit evictions / bounded LRU). *)
EXTENDS KeysContract
CONSTANTS MaxArgs, Names, MaxKw, MaxOps
Vals == {"u", "v"}
VARIABLES mode, s1, s2, ops, lru
vars == <<mode, s1, s2, ops, lru>>
ArgSeqs == UNION {[1..k -> Vals] : k \in 0..MaxArgs}
\* keyword lists: sequences of distinct names, each with a value
KwSeqs == UNION {{s \in [1..k -> Names \X Vals] : \A i, j \in 1..k : i # j => s[i][1] # s[j][1]} : k \in 0..MaxKw}
Sigs == {[args |-> a, kw |-> k] : a \in ArgSeqs, k \in KwSeqs}
Keys == {"p", "q", "r"}
OpSeqs == UNION {[1..n -> ({"call", "evict"} \X Keys)] : n \in 1..MaxOps}
Empty == [args |-> <<>>, kw |-> <<>>]
Init == \/ /\ mode = "pair" /\ s1 \in Sigs /\ s2 \in Sigs /\ ops = <<>> /\ lru = 0
        \/ /\ mode = "ops" /\ s1 = Empty /\ s2 = Empty /\ ops \in OpSeqs /\ lru \in {0, 1, 2}
           /\ ops[1][1] = "call"
           /\ (lru > 0 => \A i \in 1..Len(ops) : ops[i][1] = "call")
Next == UNCHANGED vars
Spec == Init /\ [][Next]_vars
PrintCase == PrintT(<<"CASE", mode, s1, s2, ops, lru>>)
=============================================================================
