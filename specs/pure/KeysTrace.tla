----------------------------- MODULE KeysTrace -----------------------------
(* Batch validation of recorded executions of the real code against KeysContract. *)
EXTENDS KeysContract, Json, IOUtils

Traces == JsonDeserialize(IOEnv.TRACE_FILE)

VARIABLES tid, l, m
vars == <<tid, l, m>>

Init == tid \in 1..Len(Traces) /\ l = 1 /\ m = MInit
Step == /\ l <= Len(Traces[tid])
        /\ m' = MStep(m, Traces[tid][l], l)
        /\ l' = l + 1
        /\ UNCHANGED tid
Spec == Init /\ [][Step]_vars

Report == (l = Len(Traces[tid]) + 1) => PrintT(<<"VERDICT", tid, m.bad>>)
=============================================================================
