SPECIFICATION Spec
CONSTANT MaxItems = 1
CONSTRAINT PrintCase
CHECK_DEADLOCK FALSE
