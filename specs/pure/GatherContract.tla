---------------------------- MODULE GatherContract ----------------------------
(***************************************************************************)
(* gather_excs / raise_first_exc transcribed (C20).                        *)
(*  awaitable i = [delay, out]   out \in ok | Base | Sub | Unrel | BaseOnly *)
(*  hierarchy:  BaseException > {Exception > {Base > Sub, Unrel}, BaseOnly} *)
(*  only \in BaseException | Exception | Base | Sub | Unrel | BaseOnly     *)
(* Events: Config{aws,only,fn} AwDone{i} Yielded{i} Result{raised} End     *)
(***************************************************************************)
EXTENDS Util
Props == {"C20"}
IsInst(out, only) ==
    CASE out = "ok" -> FALSE
      [] only = "BaseException" -> TRUE
      [] only = "Exception" -> out \in {"Base", "Sub", "Unrel"}
      [] only = "Base" -> out \in {"Base", "Sub"}
      [] OTHER -> out = only
RECURSIVE Filt(_, _, _)
Filt(aws, only, i) == IF i > Len(aws) THEN <<>>
                      ELSE IF IsInst(aws[i][2], only) THEN <<i>> \o Filt(aws, only, i + 1)
                      ELSE Filt(aws, only, i + 1)
Expected(aws, only) == Filt(aws, only, 1)

MInit == [aws |-> <<>>, only |-> "BaseException", fn |-> "gather_excs", done |-> {}, got |-> <<>>,
          bad |-> [p \in Props |-> Ok]]
MStep(m, e, idx) ==
  CASE e.e = "Config" -> [m EXCEPT !.aws = e.aws, !.only = e.only, !.fn = e.fn]
    [] e.e = "AwDone" -> [m EXCEPT !.done = @ \cup {e.i}]
    [] e.e = "Yielded" ->
        LET exp == Expected(m.aws, m.only)
            k == Len(m.got) + 1
            b1 == IF m.done # 1..Len(m.aws) THEN Flag(m.bad, "C20", "C20_AllRun", idx) ELSE m.bad
            b2 == IF k > Len(exp) THEN Flag(b1, "C20", "C20_ExactlyFiltered", idx)
                  ELSE IF exp[k] # e.i
                       THEN (IF e.i \in SeqToSet(exp) THEN Flag(b1, "C20", "C20_InputOrder", idx)
                             ELSE Flag(b1, "C20", "C20_ExactlyFiltered", idx))
                       ELSE b1
        IN [m EXCEPT !.got = Append(@, e.i), !.bad = b2]
    [] e.e = "Result" ->
        LET exp == Expected(m.aws, m.only)
            b1 == IF m.done # 1..Len(m.aws) THEN Flag(m.bad, "C20", "C20_AllRun", idx) ELSE m.bad
            b2 == IF m.fn = "gather_excs"
                  THEN (IF m.got # exp THEN Flag(b1, "C20", "C20_ExactlyFiltered", idx) ELSE b1)
                  ELSE IF exp = <<>>
                       THEN (IF e.raised # 0 THEN Flag(b1, "C20", "C20_NoneWhenEmpty", idx) ELSE b1)
                       ELSE (IF e.raised # exp[1] THEN Flag(b1, "C20", "C20_RaiseFirst", idx) ELSE b1)
        IN [m EXCEPT !.bad = b2]
    [] e.e = "End" -> IF e.status # "ok" THEN [m EXCEPT !.bad = Flag(@, "C20", "C20_Hang", idx)] ELSE m
    [] OTHER -> m
=============================================================================
