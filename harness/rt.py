"""
Deterministic runtime for executing the real aiuti code under harness-chosen schedules.

* exactly one *controlled* thread runs at a time (baton passing, no controller thread);
* yield points: every line event of a frame whose code lives in an aiuti source file
  (sys.settrace), explicit ``ctl.point()`` calls in harness-owned code, and every blocking
  primitive;
* blocking is virtual: controlled Lock/RLock, executor, futures, queue, sleep, flock;
* time is virtual: it advances to the earliest deadline only when no thread is runnable;
* every event gets a global sequence number => the log is a true linearisation.

One execution = one forked child process (see pool.py); nothing here is ever torn down.
"""
import os
import sys
import json
import random
import asyncio
import selectors
import threading
import itertools
import concurrent.futures as cf
from collections import deque

READY, RUNNING, IDLE, BLOCKED, DONE = 'ready', 'running', 'idle', 'blocked', 'done'

_real_Lock = threading.Lock
_real_Thread = threading.Thread
_real_get_ident = threading.get_ident


class Hang(BaseException):
    pass


class TState:
    __slots__ = ('name', 'state', 'deadline', 'on', 'sem', 'woken', 'timed_out', 'thread',
                 'prio', 'steps', 'last_where')

    def __init__(self, name):
        self.name = name
        self.state = READY
        self.deadline = None
        self.on = None
        self.sem = threading.Semaphore(0)
        self.woken = False
        self.timed_out = False
        self.thread = None
        self.prio = 0
        self.steps = 0
        self.last_where = None


# --------------------------------------------------------------------------- strategies

class Strategy:
    """choose(names, current, where) -> name; names sorted, len >= 1."""
    def choose(self, names, current, where):
        raise NotImplementedError


class RandomStrategy(Strategy):
    def __init__(self, seed, stick=0.0):
        self.r = random.Random(seed)
        self.stick = stick

    def choose(self, names, current, where):
        if current in names and self.r.random() < self.stick:
            return current
        return names[self.r.randrange(len(names))]


class PCTStrategy(Strategy):
    """Probabilistic concurrency testing: random priorities, d-1 priority change points."""
    def __init__(self, seed, depth=3, est_len=300):
        self.r = random.Random(seed)
        self.prio = {}
        self.low = 0
        self.change = set(self.r.randrange(1, max(2, est_len)) for _ in range(max(0, depth - 1)))
        self.n = 0

    def choose(self, names, current, where):
        self.n += 1
        for n in names:
            if n not in self.prio:
                self.prio[n] = self.r.random() + 1.0
        if self.n in self.change and current in names:
            self.low -= 1
            self.prio[current] = self.low
        return max(names, key=lambda n: self.prio[n])


class ReplayStrategy(Strategy):
    """Forced prefix of choices (one per multi-choice decision), then a default policy:
    keep the current thread if runnable, else the first name."""
    def __init__(self, prefix, then=None):
        self.prefix = list(prefix)
        self.i = 0
        self.then = then
        self.diverged = None

    def choose(self, names, current, where):
        if self.i < len(self.prefix):
            c = self.prefix[self.i]
            self.i += 1
            if c in names:
                return c
            if self.diverged is None:
                self.diverged = self.i - 1
        if self.then is not None:
            return self.then.choose(names, current, where)
        return current if current in names else names[0]


class DirectedStrategy(Strategy):
    """Follow a list of directives ``(thread, until)``: run `thread` until predicate
    `until(where)` becomes true at one of its yield points (where = (kind, info)), then move
    on.  When a directive's thread is not runnable the lowest other runnable thread runs.
    After the script a fallback strategy decides."""
    def __init__(self, script, then=None):
        self.script = list(script)
        self.i = 0
        self.then = then or ReplayStrategy([])

    def choose(self, names, current, where):
        while self.i < len(self.script):
            thr, until = self.script[self.i]
            if current == thr and where is not None and until is not None and until(where):
                self.i += 1
                continue
            if thr in names:
                return thr
            if until is None:       # "run thr to completion/blocked": thr not runnable => next
                self.i += 1
                continue
            return names[0]
        return self.then.choose(names, current, where)


def make_strategy(spec):
    """spec: dict from the scenario, e.g. {"kind":"random","seed":1,"stick":0.7}"""
    k = spec.get('kind', 'random')
    if k == 'random':
        return RandomStrategy(spec.get('seed', 0), spec.get('stick', 0.0))
    if k == 'pct':
        return PCTStrategy(spec.get('seed', 0), spec.get('depth', 3), spec.get('est_len', 300))
    if k == 'replay':
        then = make_strategy(spec['then']) if spec.get('then') else None
        return ReplayStrategy(spec.get('prefix', []), then)
    raise ValueError(k)


# --------------------------------------------------------------------------- controller

class Ctl:
    def __init__(self, strategy, trace_files=(), max_steps=200000, ms_per_unit=1000,
                 opcode_files=()):
        self.mu = _real_Lock()
        self.threads = {}            # name -> TState (insertion ordered)
        self.by_ident = {}
        self.current = None
        self.now = 0.0
        self.strategy = strategy
        self.trace_files = frozenset(trace_files)
        self.opcode_files = frozenset(opcode_files)
        self.events = []
        self.seq = 0
        self.decisions = []          # [options, chosen, current] for multi-choice decisions
        self.steps = 0
        self.max_steps = max_steps
        self.idle_spins = 0
        self.spun = set()
        self.max_now = 3600.0          # virtual seconds; every scenario of the harness ends long before
        self.zero_iters = 0            # event-loop iterations that found ready callbacks (no virtual time passes)
        self.zero_at_tick = 0
        self.max_zero_iters = 20000
        self.steps_at_tick = 0
        self.finished = threading.Event()
        self.status = None
        self.ms = ms_per_unit
        self.line_hook = None        # optional callable(thread_name, filename, lineno, frame)
        self.on_quiescent = None     # optional callable() -> bool (True: something was made runnable)
        self.lines = 0
        self.interesting = {}        # filename -> set of interesting line numbers (preemption points)
        self.stalls = {}             # thread name -> [nth aiuti line, virtual seconds]: the thread is descheduled there
        self._lines_of = {}

    # ---- logging
    def t_ms(self):
        return int(round(self.now * self.ms))

    def log(self, e, **kw):
        self.seq += 1
        d = {'n': self.seq, 't': self.t_ms(), 'e': e}
        d.update(kw)
        self.events.append(d)
        return d

    # ---- identity
    def me(self):
        return self.by_ident.get(_real_get_ident())

    def me_name(self):
        t = self.me()
        return t.name if t else None

    # ---- thread management
    def spawn(self, name, fn, *args):
        ts = TState(name)
        assert name not in self.threads, name
        self.threads[name] = ts

        def boot():
            self.by_ident[_real_get_ident()] = ts
            ts.sem.acquire()            # wait for the baton
            if self.trace_files:
                sys.settrace(self._gtrace)
            try:
                fn(*args)
            except Hang:
                pass
            except BaseException as e:   # harness-level failure of a thread body
                self.log('ThreadCrash', thr=name, exctype=type(e).__name__, msg=str(e)[:200])
            finally:
                sys.settrace(None)
                self._finish(ts)
        th = _real_Thread(target=boot, name=name, daemon=True)
        ts.thread = th
        th.start()
        return ts

    def start(self):
        """Called by the (uncontrolled) main thread after spawning the initial threads."""
        with self.mu:
            nxt = self._schedule(None, ('start', None))
        if nxt is not None:
            self._grant(nxt)

    def _grant(self, ts):
        ts.state = RUNNING
        self.current = ts.name
        ts.sem.release()

    def _finish(self, ts):
        with self.mu:
            ts.state = DONE
            self._wake_joiners(ts)
            nxt = self._schedule(None, ('finish', ts.name))
        if nxt is not None:
            self._grant(nxt)

    def _wake_joiners(self, ts):
        for t in self.threads.values():
            if t.state == BLOCKED and t.on is ts:
                t.state = READY

    def _end(self, status):
        if self.status is None:
            self.status = status
        self.finished.set()

    # ---- scheduling core (under mu)
    def _schedule(self, cur, where):
        """Return the TState that runs next (may be cur); None when the execution is over."""
        while True:
            names = [t.name for t in self.threads.values() if t.state == READY]
            if names:
                # Spin-waits: when every runnable thread has been spinning with time.sleep(0) (and nothing else became
                # runnable in between), what they wait for can only be brought about by the passage of time (threads in
                # timed waits).  In reality time passes while they spin: advance the virtual clock.
                if where[0] == 'sleep0' and cur is not None:
                    self.spun.add(cur.name)
                if all(n in self.spun for n in names):
                    if where[0] == 'sleep0':
                        self.idle_spins += 1
                        timed = [t for t in self.threads.values() if t.state in (IDLE, BLOCKED) and t.deadline is not None]
                        if self.idle_spins > 50 and timed:
                            to = min(t.deadline for t in timed)
                            if to > self.max_now:
                                self.log('Hang', why='horizon', thr=sorted(names))
                                self._end('hang')
                                return None
                            if to > self.now:
                                self.now = to
                                self.steps_at_tick = self.steps
                                self.zero_at_tick = self.zero_iters
                                self.log('Tick')
                            for t in timed:
                                if t.deadline <= self.now:
                                    t.state = READY
                                    t.timed_out = True
                                    t.deadline = None
                            self.idle_spins = 0
                            self.spun.clear()
                            continue
                else:
                    self.idle_spins = 0
                    self.spun.clear()
            if names:
                names.sort()
                if len(names) == 1:
                    return self.threads[names[0]]
                curname = cur.name if (cur is not None and cur.state == READY) else None
                if where[0] == 'sleep0' and curname is not None:
                    # time.sleep(0) gives up the time slice: somebody else runs (fairness for spin-waits)
                    names.remove(curname)
                    curname = None
                    if len(names) == 1:
                        return self.threads[names[0]]
                c = self.strategy.choose(names, curname, where)
                pp = True
                if where[0] == 'line':
                    pp = bool(where[1][2])
                self.decisions.append([names, c, curname, pp])
                return self.threads[c]
            pend = [t for t in self.threads.values() if t.state in (IDLE, BLOCKED)
                    and not isinstance(t.on, CExecutor)]      # idle pool workers wait for work for ever
            if not pend:
                self._end('ok')
                return None
            dl = [t.deadline for t in pend if t.deadline is not None]
            if not dl:
                if self.on_quiescent is not None and self.on_quiescent():
                    continue
                self.log('Hang', why='idle', thr=sorted(t.name for t in pend))
                self._end('hang')
                return None
            to = min(dl)
            if to > self.max_now:
                # virtual time keeps advancing and the program does not finish (e.g. a wait that re-arms its
                # safety timeout for ever): the execution is a hang, decided in virtual time, not by the wall clock
                self.log('Hang', why='horizon', thr=sorted(t.name for t in pend))
                self._end('hang')
                return None
            if to > self.now:
                self.now = to
                self.steps_at_tick = self.steps
                self.zero_at_tick = self.zero_iters
                self.log('Tick')
            for t in pend:
                if t.deadline is not None and t.deadline <= self.now:
                    t.state = READY
                    t.timed_out = True
                    t.deadline = None

    def _switch(self, me, where):
        """me has recorded its new state under mu already released?  No: call with mu held."""
        nxt = self._schedule(me, where)
        return nxt

    def _park(self, me, where):
        """Give up the baton according to me.state; returns when me is granted again."""
        with self.mu:
            self.steps += 1
            me.last_where = where[0]
            if self.steps - self.steps_at_tick > self.max_steps:
                self.log('Hang', why='spin', thr=[me.name])
                self._end('hang')
                nxt = None
            else:
                nxt = self._schedule(me, where)
            if nxt is me:
                me.state = RUNNING
                self.current = me.name
                return
        if nxt is not None:
            self._grant(nxt)
        me.sem.acquire()
        if self.finished.is_set() and self.status != 'ok':
            raise Hang()

    def spin_hang(self):
        me = self.me()
        with self.mu:
            if not self.finished.is_set():
                self.log('Hang', why='spin', thr=[me.name if me else '?'])
                self._end('hang')
        raise Hang()

    # ---- yield points
    def point(self, kind='harness', info=None):
        me = self.me()
        if me is None or self.finished.is_set():
            return
        me.state = READY
        self._park(me, (kind, info))

    def idle(self, deadline):
        """Park until woken (wake()) or until virtual time reaches deadline (None = forever)."""
        me = self.me()
        if me.woken:
            me.woken = False
            self.point('idle-woken')
            return
        me.state = IDLE
        me.deadline = deadline
        me.timed_out = False
        self._park(me, ('idle', None))
        me.deadline = None
        me.woken = False

    def wake(self, ts):
        """Make an idle thread runnable (call_soon_threadsafe, notify)."""
        if ts is None:
            return
        if ts.state == IDLE:
            ts.state = READY
            ts.deadline = None
        else:
            ts.woken = True

    def block(self, on, deadline=None):
        """Park as blocked on `on`; returns True if released by unblock(on), False on timeout."""
        me = self.me()
        me.state = BLOCKED
        me.on = on
        me.deadline = deadline
        me.timed_out = False
        self._park(me, ('block', None))
        me.on = None
        me.deadline = None
        return not me.timed_out

    def unblock(self, on, all_=True):
        n = 0
        for t in self.threads.values():
            if t.state == BLOCKED and t.on is on:
                t.state = READY
                t.deadline = None
                t.timed_out = False
                n += 1
                if not all_:
                    break
        return n

    def sleep(self, d):
        me = self.me()
        if me is None:
            return
        if d <= 0:
            self.point('sleep0')
            return
        me.state = IDLE
        me.deadline = self.now + d
        me.woken = False
        self._park(me, ('sleep', None))
        me.deadline = None
        me.woken = False

    def join(self, ts):
        if ts.state != DONE:
            self.block(ts)

    # ---- tracing
    def _gtrace(self, frame, event, arg):
        fn = frame.f_code.co_filename
        if fn in self.trace_files:
            if fn in self.opcode_files:
                frame.f_trace_opcodes = True
            return self._ltrace
        return None

    def _ltrace(self, frame, event, arg):
        if event == 'line' or event == 'opcode':
            self.lines += 1
            if self.line_hook is not None:
                self.line_hook(self.current, frame.f_code.co_filename, frame.f_lineno, frame)
            if self.stalls:
                cur = self.current
                st = self.stalls.get(cur)
                if st is not None:
                    n = self._lines_of.get(cur, 0) + 1
                    self._lines_of[cur] = n
                    if n == st[0]:
                        self.log('Stall', thr=cur, d=int(st[1] * self.ms))
                        self.sleep(st[1])     # an arbitrarily long descheduling of this thread
            il = self.interesting.get(frame.f_code.co_filename)
            self.point('line', (frame.f_code.co_name, frame.f_lineno, il is None or frame.f_lineno in il))
        return self._ltrace


def interesting_lines(path):
    """Source lines that touch shared state or synchronise (AST-derived from the *current* source, no
    line numbers are hard-wired): subscripts, deletes, with/await, membership tests, attribute stores,
    and calls of the usual mutating / synchronising methods.  Systematic exploration places preemptions
    only before such lines (a preemption before any other line commutes with the next such line)."""
    import ast
    src = open(path).read()
    tree = ast.parse(src)
    meth = {'set', 'clear', 'cancel', 'acquire', 'release', 'put_nowait', 'get_nowait', 'task_done', 'append',
            'pop', 'add', 'remove', 'put', 'get', 'is_set', 'is_running', 'is_closed', 'done', 'result',
            'set_result', 'set_exception', 'flock', 'open', 'close', 'sleep', 'time', 'submit', 'call_soon_threadsafe',
            'run_until_complete', 'run_forever', 'stop', 'wait'}
    lines = set()
    for node in ast.walk(tree):
        ln = getattr(node, 'lineno', None)
        if ln is None:
            continue
        if isinstance(node, (ast.Subscript, ast.Delete, ast.With, ast.AsyncWith, ast.Await, ast.AsyncFor)):
            lines.add(ln)
        elif isinstance(node, ast.Compare) and any(isinstance(o, (ast.In, ast.NotIn)) for o in node.ops):
            lines.add(ln)
        elif isinstance(node, (ast.Assign, ast.AugAssign, ast.AnnAssign)):
            tg = node.targets if isinstance(node, ast.Assign) else [node.target]
            if any(isinstance(t, (ast.Attribute, ast.Subscript)) for t in tg):
                lines.add(ln)
        elif isinstance(node, ast.Call) and isinstance(node.func, ast.Attribute) and node.func.attr in meth:
            lines.add(ln)
        elif isinstance(node, ast.Call) and isinstance(node.func, ast.Name) and node.func.id in ('run_coro_ts', 'sleep'):
            lines.add(ln)
        elif isinstance(node, ast.Attribute) and isinstance(node.value, ast.Name) and node.value.id == 'self' \
                and node.attr.startswith('_'):
            lines.add(ln)
    return lines


CTL = None  # the controller of this process (one execution per process)


def install(ctl):
    global CTL
    CTL = ctl
    return ctl


# --------------------------------------------------------------------------- controlled primitives

class CLock:
    """threading.Lock replacement."""
    def __init__(self):
        self._owner = None
        self.label = None

    def acquire(self, blocking=True, timeout=-1):
        ctl = CTL
        me = ctl.me_name() or 'ext'
        if self._owner is None:
            self._owner = me
            return True
        if not blocking:
            return False
        deadline = None if (timeout is None or timeout < 0) else ctl.now + timeout
        while self._owner is not None:
            if not ctl.block(self, deadline):
                return False
        self._owner = me
        return True

    def release(self):
        if self._owner is None:
            raise RuntimeError('release unlocked lock')
        self._owner = None
        CTL.unblock(self, all_=True)

    def locked(self):
        return self._owner is not None

    def __enter__(self):
        self.acquire()
        return True

    def __exit__(self, *a):
        self.release()


class CRLock:
    def __init__(self):
        self._owner = None
        self._count = 0

    def acquire(self, blocking=True, timeout=-1):
        ctl = CTL
        me = ctl.me_name() or 'ext'
        if self._owner == me:
            self._count += 1
            return True
        if self._owner is None:
            self._owner, self._count = me, 1
            return True
        if not blocking:
            return False
        deadline = None if (timeout is None or timeout < 0) else ctl.now + timeout
        while self._owner is not None:
            if not ctl.block(self, deadline):
                return False
        self._owner, self._count = me, 1
        return True

    def release(self):
        me = CTL.me_name() or 'ext'
        if self._owner != me:
            raise RuntimeError('cannot release un-acquired lock')
        self._count -= 1
        if self._count == 0:
            self._owner = None
            CTL.unblock(self, all_=True)

    def __enter__(self):
        self.acquire()
        return True

    def __exit__(self, *a):
        self.release()


class CFuture(cf.Future):
    """concurrent.futures.Future whose blocking result()/exception() park virtually."""
    def _vwait(self, timeout):
        ctl = CTL
        if ctl.me() is None:
            return
        deadline = None if timeout is None else ctl.now + timeout
        while not self.done():
            if not ctl.block(self, deadline):
                raise cf.TimeoutError()

    def result(self, timeout=None):
        self._vwait(timeout)
        return super().result(0)

    def exception(self, timeout=None):
        self._vwait(timeout)
        return super().exception(0)

    def set_result(self, r):
        super().set_result(r)
        CTL.unblock(self)

    def set_exception(self, e):
        super().set_exception(e)
        CTL.unblock(self)

    def cancel(self):
        r = super().cancel()
        if r:
            CTL.unblock(self)
        return r


_pool_ids = itertools.count(1)


class CExecutor:
    """ThreadPoolExecutor replacement whose workers are controlled threads.  Workers persist
    (idle) until shutdown, like the real ones, so a leaked pool is observable."""
    all_pools = []

    def __init__(self, max_workers=None, thread_name_prefix='', **kw):
        self.max_workers = max_workers or 8
        self.pid = next(_pool_ids)
        self.q = deque()
        self.workers = []       # TState
        self.idle_workers = 0
        self._shutdown = False
        self.module_level = False
        CExecutor.all_pools.append(self)

    def submit(self, fn, *args, **kwargs):
        if self._shutdown:
            raise RuntimeError('cannot schedule new futures after shutdown')
        f = CFuture()
        self.q.append((f, fn, args, kwargs))
        ctl = CTL
        if self.idle_workers > 0:
            ctl.unblock(self, all_=False)
        elif len(self.workers) < self.max_workers:
            name = 'P%d-%d' % (self.pid, len(self.workers) + 1)
            ts = ctl.spawn(name, self._worker)
            self.workers.append(ts)
        return f

    def _worker(self):
        ctl = CTL
        while True:
            while not self.q:
                if self._shutdown:
                    return
                self.idle_workers += 1
                ctl.block(self)
                self.idle_workers -= 1
            f, fn, args, kwargs = self.q.popleft()
            if not f.set_running_or_notify_cancel():
                continue
            ctl.point('pool-run')
            try:
                r = fn(*args, **kwargs)
            except BaseException as e:
                if isinstance(e, Hang):
                    raise
                ctl.point('pool-result')    # the worker can be preempted before it completes the future
                f.set_exception(e)
            else:
                ctl.point('pool-result')
                f.set_result(r)
            del f, fn, args, kwargs

    def map(self, fn, *iterables, timeout=None, chunksize=1):
        fs = [self.submit(fn, *a) for a in zip(*iterables)]

        def it():
            for f in fs:
                yield f.result()
        return it()

    def shutdown(self, wait=True, *, cancel_futures=False):
        self._shutdown = True
        ctl = CTL
        if cancel_futures:
            while self.q:
                self.q.popleft()[0].cancel()
        ctl.unblock(self, all_=True)
        if wait and ctl.me() is not None:
            for ts in list(self.workers):
                ctl.join(ts)

    def alive_workers(self):
        return [t.name for t in self.workers if t.state != DONE]

    def __enter__(self):
        return self

    def __exit__(self, *a):
        self.shutdown(wait=True)
        return False


class CQueue:
    """queue.Queue replacement (unbounded)."""
    def __init__(self, maxsize=0):
        self.d = deque()

    def put_nowait(self, x):
        self.d.append(x)
        CTL.unblock(self, all_=False)

    def put(self, x, block=True, timeout=None):
        self.put_nowait(x)

    def get(self, block=True, timeout=None):
        import queue as _q
        ctl = CTL
        deadline = None if timeout is None else ctl.now + timeout
        while not self.d:
            if not block:
                raise _q.Empty
            if not ctl.block(self, deadline):
                raise _q.Empty
        return self.d.popleft()

    def get_nowait(self):
        return self.get(block=False)

    def qsize(self):
        return len(self.d)

    def empty(self):
        return not self.d


class _NS:
    """Attribute namespace delegating to a real module, with overrides."""
    def __init__(self, real, **over):
        self.__dict__['_real'] = real
        self.__dict__.update(over)

    def __getattr__(self, k):
        return getattr(self.__dict__['_real'], k)


# --------------------------------------------------------------------------- virtual-time loop

class FakeSelector(selectors.BaseSelector):
    def __init__(self):
        self._map = {}

    def register(self, fileobj, events, data=None):
        fd = fileobj if isinstance(fileobj, int) else fileobj.fileno()
        key = selectors.SelectorKey(fileobj, fd, events, data)
        self._map[fd] = key
        return key

    def unregister(self, fileobj):
        fd = fileobj if isinstance(fileobj, int) else fileobj.fileno()
        return self._map.pop(fd)

    def modify(self, fileobj, events, data=None):
        self.unregister(fileobj)
        return self.register(fileobj, events, data)

    def select(self, timeout=None):
        ctl = CTL
        if timeout is not None and timeout <= 0:
            # the loop has ready callbacks: no yield to the scheduler.  A loop that keeps doing this for ever
            # without virtual time advancing is spinning (a livelock of the code under test), not slow.
            ctl.zero_iters += 1
            if ctl.zero_iters - ctl.zero_at_tick > ctl.max_zero_iters:
                ctl.spin_hang()
            return []
        ctl.idle(None if timeout is None else ctl.now + timeout)
        return []

    def get_map(self):
        return self._map

    def close(self):
        self._map.clear()


_loop_ids = itertools.count(1)


class VLoop(asyncio.SelectorEventLoop):
    def __init__(self, name=None):
        super().__init__(FakeSelector())
        self.vid = next(_loop_ids)
        self.vname = name or ('loop%d' % self.vid)
        self._vthread = None
        self._task_seq = itertools.count(1)
        self.task_order = {}
        self.on_stopped = None     # callable(loop) just before is_running() flips
        self.on_running = None

    def time(self):
        return CTL.now

    def _write_to_self(self):
        ctl = CTL
        if self._vthread is not None:
            ctl.wake(self._vthread)

    def _process_self_data(self, data):
        pass

    def _read_from_self(self):
        pass

    def run_forever(self):
        # body of BaseEventLoop.run_forever (CPython 3.12) with two observation points:
        # on_running right after is_running() became True, on_stopped immediately before it
        # becomes False (no yield point in between => exact linearisation points).
        from asyncio import events
        self._check_closed()
        self._check_running()
        self._set_coroutine_origin_tracking(self._debug)
        old_agen_hooks = sys.get_asyncgen_hooks()
        self._vthread = CTL.me()
        try:
            self._thread_id = threading.get_ident()
            sys.set_asyncgen_hooks(firstiter=self._asyncgen_firstiter_hook,
                                   finalizer=self._asyncgen_finalizer_hook)
            events._set_running_loop(self)
            if self.on_running is not None:
                self.on_running(self)
            while True:
                self._run_once()
                if self._stopping:
                    break
        finally:
            self._stopping = False
            if self.on_stopped is not None:
                self.on_stopped(self)
            self._thread_id = None
            self._vthread = None
            events._set_running_loop(None)
            self._set_coroutine_origin_tracking(False)
            sys.set_asyncgen_hooks(*old_agen_hooks)

    def create_task(self, coro, **kw):
        t = super().create_task(coro, **kw)
        self.task_order[id(t)] = next(self._task_seq)
        return t

    def ordered_tasks(self):
        ts = [t for t in asyncio.all_tasks(self)]
        big = 10 ** 9
        ts.sort(key=lambda t: (self.task_order.get(id(t), big), t.get_name()))
        return ts


class VPolicy(asyncio.DefaultEventLoopPolicy):
    def new_event_loop(self):
        return VLoop()


def shutdown_loop(loop, point=None):
    """asyncio.Runner.close()/asyncio.run() shutdown sequence with a deterministic cancel
    order; `point(label)` is called between the steps (harness yield points / event log)."""
    def p(label):
        if point is not None:
            point(label)
    try:
        p('cancel')
        to_cancel = [t for t in loop.ordered_tasks() if not t.done()]
        for t in to_cancel:
            t.cancel()

        async def drain():
            # the three steps of asyncio.Runner.close(), in one run of the loop
            if to_cancel:
                await asyncio.gather(*to_cancel, return_exceptions=True)
            await loop.shutdown_asyncgens()
            await loop.shutdown_default_executor()
        loop.run_until_complete(drain())
        p('drained')
    finally:
        p('close')
        asyncio.set_event_loop(None)
        loop.close()
        p('closed')


# --------------------------------------------------------------------------- module patching

def patch_asyncio_module(mod):
    """Replace the blocking names of aiuti.asyncio by controlled ones (namespace only)."""
    import queue as _queue
    mod.Lock = CLock
    mod.ThreadPoolExecutor = CExecutor
    mod.sleep = lambda d: CTL.sleep(d)
    mod.queue = _NS(_queue, Queue=CQueue)
    # module-level objects created at import time from the real names
    if hasattr(mod, '_CROSS_LOOP_POOL'):
        try:
            mw = mod._CROSS_LOOP_POOL._max_workers
        except AttributeError:
            mw = 32
        p = CExecutor(mw)
        p.module_level = True
        mod._CROSS_LOOP_POOL = p
    if hasattr(mod, '_LOOP_LOCKS_CREATE_LOCK'):
        mod._LOOP_LOCKS_CREATE_LOCK = CLock()
    if hasattr(mod, '_LOOP_LOCKS'):
        for k in list(mod._LOOP_LOCKS):
            mod._LOOP_LOCKS[k] = CLock()


def wait_finished(ctl, wall):
    """Wait for the controlled execution to end.  Returns True if it ended (ok / hang).  If the wall-clock
    budget runs out the execution is `stuck` (possibly just slow: dropped by the caller) - unless it made no
    progress at all for 4 s (no scheduler step, no loop iteration, no event, no tick): then some thread is blocked
    in a way the scheduler cannot see (a real blocking call introduced into the code under test) and the
    execution is a hang."""
    import time as _t
    t0 = _t.time()
    last, still = None, 0
    while True:
        if ctl.finished.wait(0.5):
            return True
        snap = (ctl.steps, ctl.zero_iters, ctl.now, len(ctl.events), ctl.lines)
        if snap == last:
            still += 1
        else:
            last, still = snap, 0
        if still >= 8:
            with ctl.mu:
                if not ctl.finished.is_set():
                    ctl.log('Hang', why='blocked-outside-scheduler', thr=[ctl.current or '?'])
                    ctl._end('hang')
            return True
        if _t.time() - t0 > wall:
            ctl.status = 'stuck'
            return False


def result_payload(ctl, extra=None):
    d = {'status': ctl.status, 'events': list(ctl.events), 'decisions': list(ctl.decisions),
         'steps': ctl.steps, 'lines': ctl.lines}
    if extra:
        d.update(extra)
    return d


def call_in_order(loop, base, items):
    """Schedule (at, fn, args) items; items due at the same instant run in list order (loop.call_at
    gives no order guarantee for equal times)."""
    groups = {}
    for at, fn, args in items:
        groups.setdefault(at, []).append((fn, args))

    def run(group):
        for fn, args in group:
            fn(*args)
    for at in sorted(groups):
        loop.call_at(base + at, run, groups[at])
