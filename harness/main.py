"""./check entry point."""
import os
import sys
import json
import argparse
import traceback

from harness import core

COMPONENTS = {
    'C01': 'cachecomp', 'C05': 'cachecomp', 'C06': 'cachecomp',
    'C03': 'buffercomp', 'C07': 'buffercomp', 'C08': 'buffercomp',
    'C04': 'batchercomp', 'C09': 'batchercomp', 'C10': 'batchercomp', 'C11': 'batchercomp',
    'C16': 'bridgecomp', 'C17': 'crossloopcomp',
    'C14': 'keyscomp', 'C15': 'c15comp',
    'C18': 'purecomp', 'C19': 'purecomp', 'C20': 'purecomp',
    'C02': 'filelockcomp', 'C12': 'filelockcomp', 'C13': 'filelockcomp',
}


def main():
    ap = argparse.ArgumentParser()
    ap.add_argument('prop')
    ap.add_argument('--tier', default=os.environ.get('VERIF_TIER', 'quick'), choices=['quick', 'thorough'])
    ap.add_argument('--replay')
    a = ap.parse_args()
    seed = int(os.environ.get('VERIF_SEED', '0') or 0)
    import importlib
    if a.prop not in COMPONENTS:
        print('unknown property', a.prop)
        return 2
    mod = importlib.import_module('harness.components.' + COMPONENTS[a.prop])
    try:
        if a.replay:
            rep = json.load(open(a.replay))
            if hasattr(mod, 'replay') and a.prop in ('C13', 'C15'):
                return mod.replay(a.prop, a.replay)
            if rep.get('driver', '').startswith('harness.drivers.'):
                return core.generic_replay(mod, a.prop, a.replay)
            import importlib as _il
            return _il.import_module(rep['driver']).replay(a.prop, a.replay)
        ctx = core.Ctx(a.prop, a.tier, seed)
        return mod.run(ctx)
    except core.MachineryError as e:
        print('MACHINERY-ERROR:', e)
        return 2
    except Exception:
        traceback.print_exc()
        return 2


if __name__ == '__main__':
    sys.exit(main())
