"""Apalache (symbolic model checker for TLA+) runs: used to discharge inductive invariants, i.e. safety for all
reachable states without enumerating them.  Each obligation is one `apalache-mc check` invocation."""
import os
import shutil
import subprocess
import time

from harness import tlc

BIN = shutil.which('apalache-mc') or '/usr/local/bin/apalache-mc'


def check(component, module, cinit, init, inv, length, timeout=900):
    """Returns ('ok' | 'violated' | 'error', seconds, tail)."""
    work = tlc.scratch('apa-')
    try:
        tlc._stage([os.path.join(tlc.SPECS, 'common'), os.path.join(tlc.SPECS, component)], work)
        cmd = [BIN, 'check', '--cinit=' + cinit, '--init=' + init, '--inv=' + inv, '--length=%d' % length,
               '--out-dir=' + os.path.join(work, 'out'), '--run-dir=' + os.path.join(work, 'run'), module + '.tla']
        env = dict(os.environ, JVM_ARGS='-Xmx4g -Djava.io.tmpdir=' + work, TMPDIR=work)
        t0 = time.time()
        try:
            p = subprocess.run(cmd, cwd=work, env=env, stdout=subprocess.PIPE, stderr=subprocess.STDOUT, text=True, timeout=timeout)
            out = p.stdout
        except subprocess.TimeoutExpired as ex:
            return 'error', time.time() - t0, 'timeout'
        dt = time.time() - t0
        if 'The outcome is: NoError' in out:
            return 'ok', dt, ''
        if 'The outcome is: Error' in out and 'invariant' in out:
            return 'violated', dt, out[-1500:]
        return 'error', dt, out[-2500:]
    finally:
        shutil.rmtree(work, ignore_errors=True)
