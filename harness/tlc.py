"""TLC invocation helpers: model checking, batch trace validation, simulation."""
import os
import re
import json
import shutil
import subprocess
import tempfile
import time

HERE = os.path.dirname(os.path.dirname(os.path.abspath(__file__)))
SPECS = os.path.join(HERE, 'specs')
JAR = '/opt/veriftools/tla/tla2tools.jar'
CM = '/opt/veriftools/tla/CommunityModules-deps.jar'


class TLCError(Exception):
    pass


def _classpath():
    cp = [JAR]
    if os.path.exists(CM):
        cp.append(CM)
    else:
        d = os.path.dirname(JAR)
        cp += [os.path.join(d, f) for f in os.listdir(d) if f.endswith('.jar') and f != 'tla2tools.jar']
    return ':'.join(cp)


def scratch(prefix='verif-'):
    base = os.environ.get('VERIF_SCRATCH') or tempfile.gettempdir()
    return tempfile.mkdtemp(prefix=prefix, dir=base)


def _stage(spec_dirs, work):
    """Copy the spec modules into a scratch directory (TLC writes next to the spec)."""
    for d in spec_dirs:
        for f in os.listdir(d):
            if f.endswith('.tla') or f.endswith('.cfg'):
                shutil.copy(os.path.join(d, f), os.path.join(work, f))


def run_tlc(component, module, cfg, workers=1, timeout=600, extra=(), env=None, jvm=(),
            simulate=None, depth=None, coverage=False, cfg_text=None, keep=None, heap='4g', extra_files=None):
    """Run TLC on specs/<component>/<module>.tla with <cfg>; returns (stdout, seconds)."""
    work = scratch('tlc-')
    try:
        _stage([os.path.join(SPECS, 'common'), os.path.join(SPECS, component)], work)
        if cfg_text is not None:
            with open(os.path.join(work, cfg), 'w') as f:
                f.write(cfg_text)
        for name, text in (extra_files or {}).items():
            with open(os.path.join(work, name), 'w') as f:
                f.write(text)
        cmd = ['java', '-XX:+UseParallelGC' if workers != 1 else '-XX:+UseSerialGC', '-Xmx' + heap,
               '-Djava.io.tmpdir=' + work]       # (TLC leaves an empty tlc-<n> directory in the JVM's tmpdir)
        cmd += list(jvm)
        cmd += ['-cp', _classpath(), 'tlc2.TLC', '-workers', str(workers), '-metadir',
                os.path.join(work, 'states'), '-noGenerateSpecTE', '-config', cfg]
        if coverage:
            cmd += ['-coverage', '1']
        if simulate:
            cmd += ['-simulate', simulate]
        if depth:
            cmd += ['-depth', str(depth)]
        cmd += list(extra)
        cmd += [module + '.tla']
        e = dict(os.environ)
        if env:
            e.update(env)
        t0 = time.time()
        try:
            p = subprocess.run(cmd, cwd=work, env=e, stdout=subprocess.PIPE, stderr=subprocess.STDOUT,
                               timeout=timeout, text=True)
            out = p.stdout
            rc = p.returncode
        except subprocess.TimeoutExpired as ex:
            out = (ex.stdout or b'')
            if isinstance(out, bytes):
                out = out.decode(errors='replace')
            out += '\nTLC-TIMEOUT\n'
            rc = -9
        dt = time.time() - t0
        if keep:
            keep(work)
        return out, dt, rc
    finally:
        shutil.rmtree(work, ignore_errors=True)


_RE_STATES = re.compile(r'(\d+) states generated, (\d+) distinct states found, (\d+) states left on queue')
_RE_COV = re.compile(r'^<(\w+) line (\d+), col \d+ to line \d+, col \d+ of module (\w+)>: (\d+):(\d+)', re.M)
_RE_DEPTH = re.compile(r'The depth of the complete state graph search is (\d+)')


def parse_mc(out):
    """Parse a model-checking run."""
    r = {'generated': 0, 'distinct': 0, 'queue': None, 'violated': [], 'error': None,
         'actions': {}, 'depth': None, 'complete': False}
    ms = _RE_STATES.findall(out)
    if ms:
        g, d, q = ms[-1]
        r.update(generated=int(g), distinct=int(d), queue=int(q))
    for m in re.finditer(r'Invariant (\w+) is violated', out):
        r['violated'].append(m.group(1))
    for m in re.finditer(r'Action property (\w+) is violated', out):
        r['violated'].append(m.group(1))
    if 'Temporal properties were violated' in out:
        r['violated'].append('TEMPORAL')
    if 'Deadlock reached' in out:
        r['violated'].append('DEADLOCK')
    m = _RE_DEPTH.search(out)
    if m:
        r['depth'] = int(m.group(1))
    r['complete'] = 'Model checking completed' in out
    if 'TLC-TIMEOUT' in out:
        r['error'] = 'timeout'
    elif re.search(r'Error: (?!Invariant|Action property|Temporal|Deadlock|The behavior|The following)', out) and not r['violated']:
        m = re.search(r'Error: .*', out)
        r['error'] = m.group(0)[:500] if m else 'error'
    elif 'Parsing or semantic analysis failed' in out or 'Fatal' in out:
        r['error'] = 'parse'
    for m in _RE_COV.finditer(out):
        name, line, mod, a, b = m.groups()
        # "<Action ...>: distinct:taken" - an action is exercised when it was *taken*, even if every
        # successor had already been found through another action
        r['actions'][name] = r['actions'].get(name, 0) + int(b)
    return r


def counterexample(out):
    """Extract the counter-example behaviour as a list of (action_label, state_text)."""
    steps = []
    for m in re.finditer(r'^State (\d+): <([^>]*)>\n((?:.+\n)+?)(?=\n|^State|\Z)', out, re.M):
        steps.append((m.group(2).strip(), m.group(3)))
    return steps


_RE_VERDICT = re.compile(r'<< ?"VERDICT", (\d+), (\[.*?\]) ?>>')


def parse_verdict_record(txt):
    """[C01 |-> "ok", C05 |-> <<"C05_NoIdleWait", 17>>] -> {'C01': None, 'C05': ('C05_NoIdleWait', 17)}"""
    d = {}
    for m in re.finditer(r'(\w+) \|-> << ?"([^"]*)", (\d+) ?>>', txt):
        d[m.group(1)] = (m.group(2), int(m.group(3))) if m.group(2) != 'ok' else None
    return d


def validate_batch(component, module, traces, timeout=900, cfg=None, extra_env=None):
    """Validate a batch of traces (list of lists of event dicts) with <module>.tla.
    Returns (verdicts: list of dict property->None|(clause, index), stats)."""
    if not traces:
        return [], {'seconds': 0.0, 'states': 0}
    work = scratch('trace-')
    try:
        tf = os.path.join(work, 'traces.json')
        with open(tf, 'w') as f:
            json.dump(traces, f)
        env = {'TRACE_FILE': tf}
        if extra_env:
            env.update(extra_env)
        out, dt, rc = run_tlc(component, module, cfg or (module + '.cfg'), workers=1,
                              timeout=timeout, env=env)
        verdicts = [None] * len(traces)
        for m in _RE_VERDICT.finditer(re.sub(r'\s+', ' ', out)):
            verdicts[int(m.group(1)) - 1] = parse_verdict_record(m.group(2))
        missing = [i for i, v in enumerate(verdicts) if v is None]
        if missing:
            raise TLCError('trace validation produced no verdict for %d trace(s), first %d\n%s'
                           % (len(missing), missing[0], out[-3000:]))
        st = parse_mc(out)
        return verdicts, {'seconds': dt, 'states': st['distinct'], 'generated': st['generated']}
    finally:
        shutil.rmtree(work, ignore_errors=True)
