"""Parse values printed by TLC (PrintT) into Python objects: <<..>> -> list, TRUE/FALSE,
strings, integers, sets {..} -> list, records [a |-> 1] -> dict."""
import re
import ast


def tla_to_py(text):
    t = text.replace('<<', '[').replace('>>', ']')
    t = re.sub(r'\bTRUE\b', 'True', t)
    t = re.sub(r'\bFALSE\b', 'False', t)
    t = re.sub(r'(\w+) \|->', r'"\1":', t)
    # records use [ ... ] too: a bracket whose first token is "name": is a dict
    out = []
    stack = []
    i = 0
    while i < len(t):
        ch = t[i]
        if ch == '[':
            j = i + 1
            while j < len(t) and t[j] == ' ':
                j += 1
            m = re.match(r'"\w+":', t[j:])
            if m:
                out.append('{')
                stack.append('}')
            else:
                out.append('[')
                stack.append(']')
        elif ch == ']':
            out.append(stack.pop())
        elif ch == '{':
            out.append('[')
            stack.append(']')
        elif ch == '}':
            out.append(stack.pop())
        elif ch == '"':
            j = t.index('"', i + 1)
            out.append(t[i:j + 1])
            i = j
        else:
            out.append(ch)
        i += 1
    return ast.literal_eval(''.join(out))


def printed(out, marker):
    """All values printed as <<"MARKER", ...>> by PrintT."""
    flat = re.sub(r'\s+', ' ', out)
    res = []
    pos = 0
    key = '<< "%s",' % marker
    key2 = '<<"%s",' % marker
    while True:
        a = flat.find(key, pos)
        b = flat.find(key2, pos)
        cands = [x for x in (a, b) if x >= 0]
        if not cands:
            break
        start = min(cands)
        depth = 0
        i = start
        while i < len(flat):
            if flat.startswith('<<', i):
                depth += 1
                i += 2
                continue
            if flat.startswith('>>', i):
                depth -= 1
                i += 2
                if depth == 0:
                    break
                continue
            if flat[i] == '"':
                i = flat.index('"', i + 1)
            i += 1
        res.append(tla_to_py(flat[start:i]))
        pos = i
    return res
