"""Shared check plumbing: evidence, violations, known findings, replay files, MC gate."""
import os
import re
import sys
import json
import time
import hashlib

from harness import tlc, pool

HERE = os.path.dirname(os.path.dirname(os.path.abspath(__file__)))
EVIDENCE = os.environ.get('VERIF_EVIDENCE_DIR') or os.path.join(HERE, 'evidence')
REPLAYS = os.environ.get('VERIF_REPLAYS_DIR') or os.path.join(HERE, 'replays')
KNOWN = os.path.join(HERE, 'known_findings.json')

ASSUMPTIONS = [
    'CPython 3.12 asyncio/threading/concurrent.futures/queue behave as documented; their internals are atomic between aiuti source lines',
    'the harness-controlled primitives (Lock, RLock, executor, futures, queue, sleep, flock waiting) are faithful to the real ones',
    'TLC 1.8 evaluates the TLA+ contract monitors and models correctly',
    'virtual time: threads take no time between yield points; durations are exact',
]


class MachineryError(Exception):
    pass


def source_fingerprint():
    h = hashlib.sha256()
    for n, p in sorted(pool.aiuti_files().items()):
        with open(p, 'rb') as f:
            h.update(n.encode() + b'\0' + f.read())
    return h.hexdigest()[:16]


def load_known():
    try:
        with open(KNOWN) as f:
            return json.load(f)
    except FileNotFoundError:
        return {'known': [], 'fixed': []}


class Ctx:
    def __init__(self, prop, tier, seed):
        self.prop = prop
        self.tier = tier
        self.seed = seed
        self.t0 = time.time()
        self.violations = []       # dicts
        self.known_hits = {}       # finding id -> count
        self.cov = {'states': 0, 'transitions': 0, 'traces_validated_against_impl': 0,
                    'samples': [], 'evaluations': 0, 'distinct_nontrivial': 0, 'rule': '',
                    'mc_runs': [], 'families': {}, 'conformance_divergences': 0}
        self.assumptions = list(ASSUMPTIONS)
        self.known = load_known()
        self._distinct = set()
        self.notes = []

    # ---- model checking
    def mc(self, component, module, cfg, expect_violation=None, workers=None, timeout=900,
           label=None, require_actions=(), cfg_text=None, heap='6g'):
        """Run an exhaustive TLC check.  A property violation in the *model* is a machinery
        error unless `expect_violation` (witness configurations) says TLC must find it."""
        workers = workers or min(16, os.cpu_count() or 4)
        out, dt, rc = tlc.run_tlc(component, module, cfg, workers=workers, timeout=timeout,
                                  coverage=True, cfg_text=cfg_text, heap=heap)
        r = tlc.parse_mc(out)
        rec = {'module': module, 'cfg': label or cfg, 'distinct': r['distinct'], 'generated': r['generated'],
               'depth': r['depth'], 'seconds': round(dt, 1), 'violated': r['violated'],
               'complete': r['complete']}
        if r['actions']:
            rec['actions'] = r['actions']
        self.cov['mc_runs'].append(rec)
        if r['error']:
            raise MachineryError('TLC failed on %s/%s %s: %s\n%s' % (component, module, cfg, r['error'], out[-2500:]))
        if expect_violation:
            if expect_violation not in r['violated']:
                raise MachineryError('witness %s/%s %s: expected TLC to violate %s (vacuity guard), got %r'
                                     % (component, module, cfg, expect_violation, r['violated']))
            rec['witness'] = True
            return r, out
        if r['violated']:
            raise MachineryError('model %s/%s %s violates %r: the model misrepresents the property or the '
                                 'code; a model-only counter-example is never reported as a violation\n%s'
                                 % (component, module, cfg, r['violated'], out[-6000:]))
        if not r['complete']:
            raise MachineryError('TLC did not complete on %s %s\n%s' % (module, cfg, out[-2000:]))
        never = [a for a in require_actions if r['actions'].get(a, 0) == 0]
        if never:
            raise MachineryError('vacuity: actions never taken in %s %s: %s' % (module, cfg, never))
        self.cov['states'] += r['distinct']
        self.cov['transitions'] += r['generated']
        self.cov['model_states'] = self.cov.get('model_states', 0) + r['distinct']
        return r, out

    # ---- executions + trace validation
    def run_and_validate(self, driver, component, trace_module, scenarios, family, props=None,
                         wall=12.0, nontrivial=None, workers=None, known_match=None,
                         validate_env=None):
        """Execute scenarios on the real code, validate the traces with TLC, record verdicts.
        Returns list of (scenario, result, verdict)."""
        scenarios = list(scenarios)
        results = [None] * len(scenarios)
        for i, sc, r in pool.run_many(driver, scenarios, workers=workers, wall_timeout=wall):
            results[i] = r
        bad_status = [(i, r) for i, r in enumerate(results) if r.get('status') in ('crash',)]
        # an exception that escaped from the code under test at a place where no outcome of the property allows
        # one (the drivers record every allowed outcome) is a violation; anything else is a harness failure
        for i, r in bad_status:
            if not from_code_under_test(r.get('error', '')):
                raise MachineryError('harness crash in %s: %s' % (family, r.get('error')))
        for i, r in bad_status:
            r.setdefault('events', [])
            self.cov['families'].setdefault(family, {'executions': 0, 'stuck_nondeterministic': 0, 'violating': 0,
                                                     'hangs': 0})['violating'] += 1
            self.violation(self.prop, self.prop + '_UnexpectedException', 0, scenarios[i], r, family, driver, known_match,
                           component, trace_module)
        ok_idx = [i for i, r in enumerate(results) if r.get('status') in ('ok', 'hang')]
        stuck = len(results) - len(ok_idx)
        verdicts, st = tlc.validate_batch(component, trace_module, [results[i]['events'] for i in ok_idx],
                                          extra_env=validate_env)
        fam = self.cov['families'].setdefault(family, {'executions': 0, 'stuck_nondeterministic': 0,
                                                       'violating': 0, 'hangs': 0})
        fam['executions'] += len(ok_idx)
        fam['stuck_nondeterministic'] += stuck
        self.cov['evaluations'] += len(ok_idx)
        self.cov['traces_validated_against_impl'] += len(ok_idx)
        # TLC also counts the states of the trace specification (one per consumed event)
        self.cov['trace_validation_states'] = self.cov.get('trace_validation_states', 0) + st.get('states', 0)
        self.cov['states'] += st.get('states', 0)
        self.cov['transitions'] += st.get('generated', 0)
        out = []
        for i, v in zip(ok_idx, verdicts):
            sc, r = scenarios[i], results[i]
            if r.get('status') == 'hang':
                fam['hangs'] += 1
            sig = hashlib.sha1(json.dumps([[e.get('e'), e.get('c'), e.get('i'), e.get('t'), e.get('kind'), e.get('h'), e.get('x'),
                                            e.get('b'), e.get('items'), e.get('S'), e.get('res')]
                                           for e in r['events']]).encode()).hexdigest()
            if (nontrivial is None or nontrivial(sc, r)) and sig not in self._distinct:
                self._distinct.add(sig)
            out.append((sc, r, v))
            for p, hit in v.items():
                if hit is None:
                    continue
                if props is not None and p not in props:
                    continue
                if p != self.prop:
                    continue
                fam['violating'] += 1
                self.violation(p, hit[0], hit[1], sc, r, family, driver, known_match, component, trace_module)
        self.cov['distinct_nontrivial'] = len(self._distinct)
        if len(self.cov['samples']) < 3 and out:
            sc, r, v = out[0]
            self.cov['samples'].append({'family': family, 'scenario': sc,
                                        'trace_head': r['events'][:12], 'trace_len': len(r['events']),
                                        'verdict': {k: (None if x is None else list(x)) for k, x in v.items()}})
        return out

    def explore_dfs(self, driver, component, trace_module, scenario, family, bound=2, budget=4000, seed=0,
                    nontrivial=None, known_match=None, wave_cap=None):
        """Systematic schedule exploration of ONE scenario (stateless, CHESS-style): start from the
        non-preemptive default schedule; every multi-choice decision of every executed schedule spawns the
        alternatives, as long as the number of preemptions (switching away from a thread that could have
        continued) stays within `bound`.  Waves are executed in parallel and validated by TLC.  When a wave
        exceeds the remaining budget it is sampled (seeded); the evidence says whether the bound was
        explored completely."""
        import random as _r
        rng = _r.Random(seed)
        done = set()
        frontier = [()]
        total = 0
        complete = True
        waves = 0
        while frontier and total < budget:
            room = budget - total
            if len(frontier) > room:
                complete = False
                frontier = rng.sample(frontier, room)
            scs = []
            for pre in frontier:
                sc = dict(scenario)
                sc['strategy'] = {'kind': 'replay', 'prefix': list(pre)}
                scs.append(sc)
            out = self.run_and_validate(driver, component, trace_module, scs, family, nontrivial=nontrivial,
                                        known_match=known_match)
            total += len(scs)
            waves += 1
            nxt = []
            for (sc, r, v), pre in zip(out, frontier):
                dec = r.get('decisions') or []
                pre_n = len(pre)
                # preemptions used so far along this schedule
                used = 0
                for i, d in enumerate(dec):
                    opts, chosen, cur = d[0], d[1], d[2]
                    pp = d[3] if len(d) > 3 else True
                    if i >= pre_n:
                        for alt in opts:
                            if alt == chosen:
                                continue
                            preempt = cur is not None and cur in opts and alt != cur
                            if preempt and not pp:
                                continue      # preempt only before lines that touch shared state
                            cost = used + (1 if preempt else 0)
                            if cost > bound:
                                continue
                            child = tuple(d[1] for d in dec[:i]) + (alt,)
                            if child not in done:
                                done.add(child)
                                nxt.append(child)
                    if cur is not None and cur in opts and chosen != cur:
                        used += 1
            frontier = nxt
        if frontier:
            complete = False
        fam = self.cov['families'].setdefault(family, {})
        fam['dfs'] = {'preemption_bound': bound, 'schedules': total, 'waves': waves, 'bound_explored_completely': complete}
        return total, complete

    def violation(self, prop, clause, idx, sc, r, family, driver, known_match=None, component=None, trace_module=None,
                  slot=None):
        kf = None
        for k in self.known.get('known', []):
            if k['property'] != prop:
                continue
            if known_match is not None and known_match(k, clause, idx, sc, r):
                kf = k
                break
        if kf is not None:
            self.known_hits[kf['id']] = self.known_hits.get(kf['id'], 0) + 1
            return
        if len(self.violations) >= 25:
            self.violations.append(None)
            return
        rep = {'property': prop, 'clause': clause, 'event_index': idx, 'family': family, 'driver': driver,
               'component': component, 'trace_module': trace_module, 'verdict_slot': slot or prop,
               'scenario': replayable(sc, r), 'source_fingerprint': source_fingerprint(),
               'trace': r['events']}
        h = hashlib.sha1(json.dumps(rep['scenario'], sort_keys=True).encode()).hexdigest()[:12]
        d = os.path.join(REPLAYS, prop)
        os.makedirs(d, exist_ok=True)
        path = os.path.join(d, '%s-%s.json' % (clause, h))
        with open(path, 'w') as f:
            json.dump(rep, f, indent=1)
        self.violations.append({'clause': clause, 'replay': path, 'family': family})

    # ---- finish
    def finish(self, level='model_checking', rule='', explanation=None):
        self.cov['rule'] = rule
        nviol = len(self.violations)
        ev = {'property_id': self.prop, 'tier': self.tier, 'seed': self.seed, 'level': level,
              'coverage': self.cov, 'assumptions': self.assumptions,
              'wall_s': round(time.time() - self.t0, 1), 'violations': nviol}
        if explanation:
            self.cov['explanation'] = explanation
        if self.notes:
            self.cov['notes'] = self.notes
        self.cov['known_findings_hit'] = self.known_hits
        self.cov['source_fingerprint'] = source_fingerprint()
        os.makedirs(EVIDENCE, exist_ok=True)
        with open(os.path.join(EVIDENCE, self.prop + '.json'), 'w') as f:
            json.dump(ev, f, indent=1)
        if self.cov.get('conformance_divergences'):
            # not a verdict: recorded executions the implementation-shaped model does not explain (model or projection
            # is off, or the code changed shape); details in the evidence file
            print('NOTE property=%s conformance drift: %d of %d sampled traces are not behaviours of the model'
                  % (self.prop, self.cov['conformance_divergences'],
                     (self.cov.get('conformance') or {}).get('traces_checked', 0)))
        for k in self.known.get('known', []):
            if k['property'] == self.prop and self.known_hits.get(k['id']):
                print('KNOWN-FINDING: property=%s %s (%d executions this run)'
                      % (self.prop, k['what'], self.known_hits[k['id']]))
        seen = set()
        for v in self.violations:
            if v is None or v['replay'] in seen:
                continue
            seen.add(v['replay'])
            print('VIOLATION property=%s replay=%s clause=%s family=%s'
                  % (self.prop, v['replay'], v['clause'], v['family']))
        return 1 if nviol else 0


def replayable(sc, r):
    """The scenario with its strategy replaced by the exact recorded schedule."""
    s = dict(sc)
    dec = r.get('decisions') or []
    s['strategy'] = {'kind': 'replay', 'prefix': [d[1] for d in dec]}
    return s


def from_code_under_test(tb):
    """Was this exception raised by the code under test?  Yes if there is an aiuti frame after the last harness
    frame of the traceback text, or if it was raised at the boundary: the innermost frame is a driver's call into
    the API (e.g. TypeError from a wrapper that passes a wrong keyword on).  Exceptions whose innermost frame is
    in the scheduler / pool / TLC glue are failures of the harness."""
    frames = [f.replace('\\', '/') for f in re.findall(r'File "([^"]+)", line \d+', tb or '')]
    if not frames:
        return False
    last_h = max([i for i, f in enumerate(frames) if '/harness/' in f] or [-1])
    if any('/aiuti/' in f for f in frames[last_h + 1:]):
        return True
    return '/harness/drivers/' in frames[-1]


def generic_replay(mod, prop, path):
    """Re-execute a recorded violation (scenario + exact schedule) on the current tree and
    re-validate it with TLC; exit status 1 iff the violation reproduces."""
    rep = json.load(open(path))
    r = pool.run_one(rep['driver'], rep['scenario'])
    if r.get('status') == 'crash':
        if from_code_under_test(r.get('error', '')):
            print('replay: an exception escaped from the code under test:\n%s' % r.get('error', '')[-600:])
            print('VIOLATION property=%s replay=%s clause=%s_UnexpectedException' % (prop, path, prop))
            return 1
        raise MachineryError('harness crash in replay: %s' % r.get('error'))
    comp = rep.get('component') or mod.COMP
    tm = rep.get('trace_module') or mod.TRACE
    verdicts, st = tlc.validate_batch(comp, tm, [r['events']])
    hit = verdicts[0].get(rep.get('verdict_slot') or prop)
    same = r['events'] == rep.get('trace')
    print('replay: status=%s verdict=%s trace_identical=%s' % (r.get('status'), hit, same))
    if hit is not None:
        print('VIOLATION property=%s replay=%s clause=%s' % (prop, path, hit[0]))
        return 1
    return 0
