"""
Execution pool: every execution of the code under test runs in a freshly forked child of a
worker process.  The worker imported the aiuti package from the tree under test (AIUTI_SRC,
default /repo) but never ran any of it, so each child starts from pristine module state and
whatever it leaves behind (parked threads, open loops) dies with it.
"""
import os
import sys
import json
import time
import select
import signal
import importlib
import multiprocessing as mp

SRC = os.environ.get('AIUTI_SRC', '/repo')


def aiuti_files():
    d = os.path.join(SRC, 'aiuti')
    return {n[:-3]: os.path.join(d, n) for n in os.listdir(d) if n.endswith('.py')}


def import_aiuti():
    """Import aiuti from the tree under test, without writing byte code."""
    sys.dont_write_bytecode = True
    if sys.path[0] != SRC:
        sys.path.insert(0, SRC)
    import aiuti  # noqa
    assert os.path.realpath(os.path.dirname(aiuti.__file__)) == os.path.realpath(os.path.join(SRC, 'aiuti')), aiuti.__file__
    return aiuti


def run_forked(fn, arg, wall_timeout=30.0):
    """Run fn(arg) -> JSON-able in a forked child; returns the decoded result or a dict
    {'status': 'stuck'|'crash', ...}."""
    r, w = os.pipe()
    pid = os.fork()
    if pid == 0:
        code = 0
        try:
            os.close(r)
            if not os.environ.get('VERIF_CHILD_STDERR'):
                dn = os.open(os.devnull, os.O_WRONLY)
                os.dup2(dn, 2)
            try:
                res = fn(arg)
            except BaseException as e:  # machinery failure inside the child
                import traceback
                res = {'status': 'crash', 'error': traceback.format_exc()[-3000:]}
            data = json.dumps(res).encode()
            off = 0
            while off < len(data):
                off += os.write(w, data[off:off + 65536])
            os.close(w)
        except BaseException:
            code = 3
        finally:
            os._exit(code)
    os.close(w)
    chunks = []
    deadline = time.time() + wall_timeout
    status = None
    while True:
        left = deadline - time.time()
        if left <= 0:
            status = 'stuck'
            break
        rl, _, _ = select.select([r], [], [], left)
        if not rl:
            status = 'stuck'
            break
        b = os.read(r, 1 << 20)
        if not b:
            break
        chunks.append(b)
    os.close(r)
    if status == 'stuck':
        try:
            os.kill(pid, signal.SIGKILL)
        except ProcessLookupError:
            pass
    _, st = os.waitpid(pid, 0)
    if status == 'stuck':
        return {'status': 'stuck', 'events': [], 'decisions': []}
    try:
        return json.loads(b''.join(chunks).decode())
    except Exception:
        return {'status': 'crash', 'error': 'no result (exit status %r)' % (st,), 'events': [], 'decisions': []}


_DRIVER = None


def _worker_init(driver_name):
    global _DRIVER
    sys.dont_write_bytecode = True
    here = os.path.dirname(os.path.dirname(os.path.abspath(__file__)))
    if here not in sys.path:
        sys.path.insert(0, here)
    _DRIVER = importlib.import_module(driver_name)
    if hasattr(_DRIVER, 'worker_init'):
        _DRIVER.worker_init()


def _worker_run(item):
    idx, sc, wall = item
    res = run_forked(_DRIVER.execute, sc, wall)
    return idx, res


def run_many(driver_name, scenarios, workers=None, wall_timeout=30.0, chunksize=4):
    """Yield (index, scenario, result) in completion order."""
    scenarios = list(scenarios)
    if not scenarios:
        return
    workers = workers or min(16, os.cpu_count() or 4)
    workers = max(1, min(workers, len(scenarios)))
    ctx = mp.get_context('fork')
    with ctx.Pool(workers, initializer=_worker_init, initargs=(driver_name,)) as pool:
        items = [(i, sc, wall_timeout) for i, sc in enumerate(scenarios)]
        for idx, res in pool.imap_unordered(_worker_run, items, chunksize=chunksize):
            yield idx, scenarios[idx], res


def run_one(driver_name, sc, wall_timeout=30.0):
    _worker_init(driver_name)
    return run_forked(_DRIVER.execute, sc, wall_timeout)
