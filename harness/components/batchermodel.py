"""Model side of the batcher checks: exhaustive TLC runs of specs/batcher/Batcher.tla (timed, with the
contract monitor composed in)."""

ACTIONS = ['Arrive', 'Answer', 'DoForget', 'AsmTake', 'AsmTimeout', 'BatchStart', 'DoYield', 'DoEnd', 'Tick']

PLAN = {
    'C04': {'quick': [('B_aab_r0', None), ('B_abc_c2', None), ('W_NeverTwoBatches', 'NeverTwoBatches')],
            'thorough': [('B_aab_r0', None), ('B_abc_c2', None), ('B_aab_r3', None), ('W_NeverTwoBatches', 'NeverTwoBatches')]},
    'C09': {'quick': [('B_aab_cancel', None), ('W_D4', 'Inv_C09')],
            'thorough': [('B_aab_cancel', None), ('B_aab_r0', None), ('W_D4', 'Inv_C09')]},
    'C10': {'quick': [('B_abc_c2', None), ('W_NeverFull', 'NeverFull'), ('W_NeverTwoBatches', 'NeverTwoBatches')],
            'thorough': [('B_abc_c2', None), ('B_aab_r0', None), ('B_aab_r3', None), ('W_NeverFull', 'NeverFull')]},
    'C11': {'quick': [('B_aab_r0', None), ('W_NeverJoins', 'NeverJoins')],
            'thorough': [('B_aab_r0', None), ('B_aab_r3', None), ('W_NeverJoins', 'NeverJoins')]},
}


def model_check(ctx):
    for cfg, expect in PLAN[ctx.prop][ctx.tier]:
        if expect:
            ctx.mc('batcher', 'MC_Batcher', cfg + '.cfg', expect_violation=expect, timeout=300)
        else:
            ctx.mc('batcher', 'MC_Batcher', cfg + '.cfg', timeout=2400, require_actions=ACTIONS)
