"""Model side of the batcher checks: exhaustive TLC runs of specs/batcher/Batcher.tla (timed, with the
contract monitor composed in)."""

ACTIONS = ['Arrive', 'Answer', 'DoForget', 'AsmTake', 'AsmTimeout', 'BatchStart', 'DoYield', 'DoEnd', 'Tick']

PLAN = {
    'C04': {'quick': [('B_aab_r0', None), ('B_abc_c2', None), ('B_abc_misbehave_q', None), ('W_NeverTwoBatches', 'NeverTwoBatches')],
            'thorough': [('B_aab_r0', None), ('B_abc_c2', None), ('B_aab_r3', None), ('B_abc_misbehave', None),
                         ('W_NeverTwoBatches', 'NeverTwoBatches')]},
    'C09': {'quick': [('B_aab_cancel', None), ('W_D4', 'Inv_C09')],
            'thorough': [('B_aab_cancel', None), ('B_aab_r0', None), ('W_D4', 'Inv_C09')]},
    'C10': {'quick': [('B_abc_c2', None), ('W_NeverFull', 'NeverFull'), ('W_NeverTwoBatches', 'NeverTwoBatches')],
            'thorough': [('B_abc_c2', None), ('B_aab_r0', None), ('B_aab_r3', None), ('W_NeverFull', 'NeverFull')]},
    'C11': {'quick': [('B_aab_r0', None), ('W_NeverJoins', 'NeverJoins')],
            'thorough': [('B_aab_r0', None), ('B_aab_r3', None), ('W_NeverJoins', 'NeverJoins')]},
}


def model_check(ctx):
    for cfg, expect in PLAN[ctx.prop][ctx.tier]:
        if expect:
            ctx.mc('batcher', 'MC_Batcher', cfg + '.cfg', expect_violation=expect, timeout=300)
        else:
            ctx.mc('batcher', 'MC_Batcher', cfg + '.cfg', timeout=2400, require_actions=ACTIONS)


# ---------------------------------------------------------------------------------------------
# implementation conformance (code -> spec): recorded executions against Batcher.tla
import json as _json
import os as _os
import re as _re
import shutil as _shutil
from concurrent.futures import ThreadPoolExecutor as _TPE

UNIT = 500      # ms per model tick (scenario times are multiples of 0.5 s)


def _prep(sc, r):
    if sc.get('form', 'class') != 'class' or sc.get('setmax') or sc.get('loops'):
        return None
    if any(c.get('chain') or c.get('tmo') is not None or c.get('cancel_iters') is not None for c in sc['calls']):
        return None
    behav = sc.get('behav', {})
    o = sc['opts']
    for k in ('batch_timeout', 'retention_timeout'):
        if (o.get(k, 0) * 1000) % UNIT:
            return None
    calls = sorted(sc['calls'], key=lambda c: c['i'])
    if [c['i'] for c in calls] != list(range(1, len(calls) + 1)) or len(calls) > 6:
        return None
    ev = []
    keyof = {}
    for e in r['events']:
        if e['e'] in ('Tick', 'Config', 'End', 'Quiescent', 'SetMax'):
            continue
        if 'st' not in e or e['t'] % UNIT:
            return None
        d = {k: v for k, v in e.items() if k != 'n'}
        d['t'] = e['t'] // UNIT
        if e['e'] == 'Call':
            keyof[e['i']] = e['key']
        ev.append(d)
    if len(keyof) != len(calls):
        return None
    # calls must arrive in id order (the model's symmetry reduction)
    order = [e['i'] for e in ev if e['e'] == 'Call']
    if order != sorted(order):
        return None
    keys = sorted(set(keyof.values()))
    return {'events': ev, 'keyof': keyof, 'keys': keys,
            'consts': {'MaxB': o['max_batch_size'], 'MaxC': o['max_concurrent_batches'],
                       'BT': int(o['batch_timeout'] * 1000) // UNIT, 'RT': int(o.get('retention_timeout', 0) * 1000) // UNIT,
                       'MaxTime': max(e['t'] for e in ev),     # the model's horizon must cover the whole recorded run
                       'Cancels': any(e['e'] == 'Cancel' for e in ev)},
            # a key answered twice was answered once first; a key replaced by an unknown one is never answered
            'behav': {k: {'dup': 'value', 'unknown': 'omit'}.get(behav.get(k, 'value'), behav.get(k, 'value')) for k in keys},
            'wild': bool(sc.get('raise_at')) or any(b in ('dup', 'unknown') for b in behav.values())}


def _one(p):
    from harness import tlc
    c = p['consts']
    keyof = ' @@ '.join('(%d :> "%s")' % (i, k) for i, k in sorted(p['keyof'].items()))
    behav = ' @@ '.join('("%s" :> "%s")' % (k, b) for k, b in sorted(p['behav'].items()))
    mod = ('---- MODULE MC_BatcherConform ----\nEXTENDS BatcherConform\nCCalls == 1..%d\nCKeyOf == %s\nCBehav == %s\n====\n'
           % (len(p['keyof']), keyof, behav))
    cfg = ('INIT CInit\nNEXT CNext\nCONSTANTS\n Calls <- CCalls\n KeyOf <- CKeyOf\n MaxB = %d\n MaxC = %d\n BT = %d\n RT = %d\n MaxTime = %d\n'
           ' Behav <- CBehav\n Cancels = %s\n Raises = %s\n Misbehaves = %s\n ShieldShared = TRUE\nCONSTRAINT Reached\nCONSTRAINT NotYetAccepted\nCHECK_DEADLOCK FALSE\n'
           % (c['MaxB'], c['MaxC'], c['BT'], c['RT'], c['MaxTime'], 'TRUE' if c['Cancels'] else 'FALSE',
              'TRUE' if p.get('wild') else 'FALSE', 'TRUE' if p.get('wild') else 'FALSE'))
    work = tlc.scratch('bconf-')
    try:
        tf = _os.path.join(work, 'trace.json')
        with open(tf, 'w') as f:
            _json.dump(p['events'], f)
        out, dt, rc = tlc.run_tlc('batcher', 'MC_BatcherConform', 'MC_BatcherConform.cfg', workers=1,
                                  timeout=int(_os.environ.get('CONF_TIMEOUT', '90')), env={'TRACE_FILE': tf},
                                  cfg_text=cfg, extra_files={'MC_BatcherConform.tla': mod},
                                  jvm=['-Dtlc2.tool.queue.IStateQueue=StateDeque'], heap='1g')
    finally:
        _shutil.rmtree(work, ignore_errors=True)
    r = tlc.parse_mc(out)
    best = 1
    for m in _re.finditer(r'<< ?"REACHED", 1, (\d+), (\d+) ?>>', _re.sub(r'\s+', ' ', out)):
        best = max(best, int(m.group(1)))
    err = r['error']
    return best, len(p['events']) + 1, err, r['distinct'], r['generated'], (out[-1500:] if err and err != 'timeout' else '')


def _ends(lst, k):
    """k elements of a list sorted by length: alternately the shortest and the longest ones."""
    lst = list(lst)
    out = []
    while lst and len(out) < k:
        out.append(lst.pop(0))
        if lst and len(out) < k:
            out.append(lst.pop())
    return out


def conformance(ctx, executed, limit=40):
    todo = []
    for sc, r, v in executed:
        if r.get('status') != 'ok' or any(x is not None for x in v.values()):
            continue
        p = _prep(sc, r)
        if p is not None and len(p['events']) <= 60:
            todo.append(p)
    # a third of the sample: batch functions that raise / yield keys they were not given or answered already
    todo.sort(key=lambda p: len(p['events']))
    a = [p for p in todo if p.get('wild')]
    b = [p for p in todo if not p.get('wild')]
    na = min(len(a), max(limit // 3, limit - len(b)))
    todo = _ends(a, na) + _ends(b, limit - na)
    acc = und = 0
    drift = []
    with _TPE(8) as ex:
        for p, (best, n, err, ds, gen, tail) in zip(todo, ex.map(_one, todo)):
            ctx.cov['states'] += ds
            ctx.cov['transitions'] += gen
            if best >= n:
                acc += 1
            elif err == 'timeout':
                und += 1
            elif err:
                ctx.notes.append('batcher conformance: TLC error: %s' % (tail[-300:],))
                und += 1
            else:
                drift.append({'consts': p['consts'], 'behav': p['behav'], 'wild': p.get('wild'), 'events': p['events'] if not drift else None, 'matched_prefix': best - 1, 'of': n - 1, 'first_unexplained': p['events'][best - 1]})
    ctx.cov['conformance'] = {'traces_checked': len(todo), 'accepted': acc, 'drift': len(drift), 'undecided': und,
                              'drift_samples': drift[:3],
                              'what': 'recorded executions (class form; incl. batch functions that raise or misbehave) validated against the timed model Batcher.tla with silent assembler / '
                                      'clean-up / clock steps; projected state (queue length, retention-cache keys, free semaphore slots) '
                                      'compared at every observable event'}
    ctx.cov['conformance_divergences'] = len(drift)
    return len(todo), acc, drift
