"""Model side of the batcher checks (Batcher.tla)."""


def model_check(ctx):
    pass
