"""Checks for threadsafe_async_cache: C01 (single flight), C05 (termination/promptness),
C06 (own outcome).  Scenario generators + TLC model checking + trace validation."""
import random
import itertools
import json

DRIVER = 'harness.drivers.cache'
COMP = 'cache'
TRACE = 'CacheTrace'


def _strategies(rng, n, est=250):
    out = []
    for _ in range(n):
        r = rng.random()
        if r < 0.35:
            out.append({'kind': 'random', 'seed': rng.randrange(1 << 30), 'stick': rng.choice([0.0, 0.5, 0.8, 0.95])})
        elif r < 0.85:
            out.append({'kind': 'pct', 'seed': rng.randrange(1 << 30), 'depth': rng.choice([1, 2, 3, 4]),
                        'est_len': est})
        else:
            out.append({'kind': 'replay', 'prefix': []})
    return out


GRID = [0.0, 0.5, 1.0, 1.5]


def fam_contention(rng, n):
    """F1: 2..4 loops x 1..3 callers on one key, zero/one-yield/positive durations, all alive."""
    out = []
    cid = itertools.count(1)
    for _ in range(n):
        cid = itertools.count(1)
        nl = rng.choice([2, 2, 3, 3, 4])
        loops = []
        for li in range(nl):
            nc = rng.choice([1, 1, 2, 3])
            loops.append({'name': 'L%d' % (li + 1), 'start': rng.choice([0.0, 0.0, 0.0, 0.5]),
                          'callers': [{'c': next(cid), 'k': 'a', 'at': rng.choice([0.0, 0.0, 0.5, 1.0])}
                                      for _ in range(nc)],
                          'life': 'full'})
        sc = {'loops': loops, 'func': {'dur': rng.choice([0, 0, -1, 1.0, 1.0])},
              'mapping': rng.choice(['dict', 'dict', 'mm', 'lru', 'expc']),
              'strategy': _strategies(rng, 1)[0]}
        out.append(sc)
    return out


def fam_lifecycle(rng, n):
    """F2: the computing loop's main returns with the computation pending, then shuts down /
    closes / is left, while other loops call the same key."""
    out = []
    for _ in range(n):
        cid = itertools.count(1)
        nl = rng.choice([2, 3, 3, 4])
        loops = []
        for li in range(nl):
            dying = (li == 0) or rng.random() < 0.25
            nc = rng.choice([1, 1, 2])
            ls = {'name': 'L%d' % (li + 1),
                  'start': 0.0 if li == 0 else rng.choice(GRID + [2.0, 2.5]),
                  'callers': [{'c': next(cid), 'k': 'a', 'at': rng.choice([0.0, 0.0, 0.5])}
                              for _ in range(nc)]}
            if dying:
                ls['life'] = rng.choice(['early', 'early', 'early', 'early_close', 'early_leave'])
                ls['main_dur'] = rng.choice([0.0, 0.5, 1.0, 1.5])
                ls['shutdown_delay'] = rng.choice([0.0, 0.0, 1.0, 2.0])
            else:
                ls['life'] = 'full'
            loops.append(ls)
        sc = {'loops': loops, 'func': {'dur': rng.choice([1.0, 2.0, 3.0]),
                                       'fail': rng.choice([[], [], [], [1], [2]])},
              'mapping': rng.choice(['dict', 'dict', 'mm', 'expc']),
              'strategy': _strategies(rng, 1)[0]}
        out.append(sc)
    return out


def fam_faults(rng, n):
    """F3: failing invocations, caller cancels and caller time-outs at grid instants."""
    out = []
    for _ in range(n):
        cid = itertools.count(1)
        nl = rng.choice([2, 2, 3])
        loops = []
        for li in range(nl):
            nc = rng.choice([1, 2, 2, 3])
            callers = []
            for _ in range(nc):
                cs = {'c': next(cid), 'k': 'a', 'at': rng.choice([0.0, 0.0, 0.5, 1.0])}
                r = rng.random()
                if r < 0.25:
                    cs['cancel_at'] = rng.choice([0.0, 0.5, 1.0, 1.5, 2.0])
                elif r < 0.45:
                    cs['tmo'] = rng.choice([0.0, 0.5, 1.0, 1.5])
                callers.append(cs)
            loops.append({'name': 'L%d' % (li + 1), 'start': rng.choice([0.0, 0.0, 0.5]),
                          'callers': callers, 'life': 'full'})
        nf = rng.choice([0, 1, 1, 2])
        sc = {'loops': loops,
              'func': {'dur': rng.choice([0, -1, 1.0, 1.0, 2.0]), 'fail': sorted(rng.sample([1, 2, 3], nf))},
              'mapping': 'dict', 'strategy': _strategies(rng, 1)[0]}
        out.append(sc)
    return out


def fam_mixed(rng, n):
    """F4: life-cycle histories combined with cancels/time-outs/failures."""
    out = []
    for sc in fam_lifecycle(rng, n):
        for ls in sc['loops']:
            for cs in ls['callers']:
                r = rng.random()
                if r < 0.15:
                    cs['cancel_at'] = rng.choice([0.5, 1.0, 1.5, 2.0, 2.5])
                elif r < 0.3:
                    cs['tmo'] = rng.choice([0.5, 1.0, 1.5, 2.5])
        out.append(sc)
    return out


def fam_evicting(rng, n):
    """F5: a caller-supplied mapping that evicts (keeps one key), two keys, several loops: callers must
    still only see their own outcomes (C05/C06); C01's once-done clause does not apply here."""
    out = []
    for _ in range(n):
        cid = itertools.count(1)
        nl = rng.choice([2, 3, 3])
        loops = []
        for li in range(nl):
            nc = rng.choice([1, 2, 2])
            loops.append({'name': 'L%d' % (li + 1), 'start': rng.choice([0.0, 0.0, 0.5]),
                          'callers': [{'c': next(cid), 'k': rng.choice(['a', 'a', 'b']), 'at': rng.choice([0.0, 0.0, 0.5, 1.0])}
                                      for _ in range(nc)],
                          'life': 'full'})
        out.append({'loops': loops, 'func': {'dur': rng.choice([0, -1, 0.5, 1.0])}, 'mapping': 'tiny',
                    'strategy': _strategies(rng, 1)[0]})
    return out


def stall_sweep(tier):
    """In a few fixed programs each loop thread in turn is descheduled for a while at its k-th source line of the cache
    wrapper, for every k: windows that need *time to pass* (the other threads are asleep at that moment) and that no
    choice among runnable threads can open."""
    bases = [
        ({'loops': [{'name': 'L1', 'start': 0.0, 'callers': [{'c': 1, 'k': 'a'}], 'life': 'full'},
                    {'name': 'L2', 'start': 0.0, 'callers': [{'c': 2, 'k': 'a', 'at': 0.5}, {'c': 3, 'k': 'b', 'at': 1.2}], 'life': 'full'}],
          'func': {'dur': 1.0}, 'mapping': 'expc'}, 1.5),
        ({'loops': [{'name': 'L1', 'start': 0.0, 'callers': [{'c': 1, 'k': 'a'}], 'life': 'early', 'main_dur': 0.5},
                    {'name': 'L2', 'start': 0.0, 'callers': [{'c': 2, 'k': 'a', 'at': 0.2}], 'life': 'full'},
                    {'name': 'L3', 'start': 0.0, 'callers': [{'c': 3, 'k': 'a', 'at': 1.0}], 'life': 'full'}],
          'func': {'dur': 2.0}, 'mapping': 'dict'}, 1.0),
        ({'loops': [{'name': 'L1', 'start': 0.0, 'callers': [{'c': 1, 'k': 'a'}, {'c': 2, 'k': 'b', 'at': 0.3}], 'life': 'full'},
                    {'name': 'L2', 'start': 0.0, 'callers': [{'c': 3, 'k': 'a', 'at': 0.1}], 'life': 'full'}],
          'func': {'dur': 0.5, 'fail': [1]}, 'mapping': 'tiny'}, 0.7),
    ]
    out = []
    for base, d in bases:
        for ls in base['loops']:
            for k in range(1, 71 if tier == 'quick' else 161):
                sc = json.loads(json.dumps(base))
                sc['stalls'] = {ls['name']: [k, d]}
                sc['strategy'] = {'kind': 'replay', 'prefix': []}
                out.append(sc)
    return out


def directed():
    """Hand-written histories for the windows named in the property anchors."""
    out = []
    # take-over after the computing loop's main returned; late shutdown of the first loop;
    # third loop arrives after that shutdown
    for d1, s2, s3, sd in itertools.product([0.5], [0.5, 1.0], [1.0, 2.0, 2.5], [0.0, 1.0, 1.5]):
        out.append({'loops': [
            {'name': 'L1', 'start': 0.0, 'callers': [{'c': 1, 'k': 'a'}], 'life': 'early', 'main_dur': d1,
             'shutdown_delay': sd},
            {'name': 'L2', 'start': s2, 'callers': [{'c': 2, 'k': 'a'}], 'life': 'full'},
            {'name': 'L3', 'start': s3, 'callers': [{'c': 3, 'k': 'a'}], 'life': 'full'}],
            'func': {'dur': 3.0}, 'mapping': 'dict', 'strategy': {'kind': 'replay', 'prefix': []}})
    # waiter on another loop while the computing loop dies in each way
    for life, md in itertools.product(['early', 'early_close', 'early_leave'], [0.5, 1.0]):
        out.append({'loops': [
            {'name': 'L1', 'start': 0.0, 'callers': [{'c': 1, 'k': 'a'}], 'life': life, 'main_dur': md},
            {'name': 'L2', 'start': 0.0, 'callers': [{'c': 2, 'k': 'a', 'at': 0.5}], 'life': 'full'}],
            'func': {'dur': 2.0}, 'mapping': 'dict', 'strategy': {'kind': 'replay', 'prefix': []}})
    # failing / cancelled computation with waiters on the same and on another loop
    for fail, canc in [([1], None), ([], 0.5), ([1, 2], None)]:
        c1 = {'c': 1, 'k': 'a'}
        if canc is not None:
            c1['cancel_at'] = canc
        out.append({'loops': [
            {'name': 'L1', 'start': 0.0, 'callers': [c1, {'c': 2, 'k': 'a', 'at': 0.5}], 'life': 'full'},
            {'name': 'L2', 'start': 0.0, 'callers': [{'c': 3, 'k': 'a', 'at': 0.5}], 'life': 'full'}],
            'func': {'dur': 1.0, 'fail': fail}, 'mapping': 'dict',
            'strategy': {'kind': 'replay', 'prefix': []}})
    # an invocation that raises from the call itself (plain function returning an awaitable), later callers
    # on the same and on another loop
    for fail, mp in itertools.product([[1], [1, 2]], ['dict', 'mm']):
        out.append({'loops': [
            {'name': 'L1', 'start': 0.0, 'callers': [{'c': 1, 'k': 'a'}, {'c': 2, 'k': 'a', 'at': 1.0}], 'life': 'full'},
            {'name': 'L2', 'start': 0.0, 'callers': [{'c': 3, 'k': 'a', 'at': 0.5}, {'c': 4, 'k': 'a', 'at': 2.0}], 'life': 'full'}],
            'func': {'dur': 0, 'fail': fail, 'form': 'plain'}, 'mapping': mp,
            'strategy': {'kind': 'replay', 'prefix': []}})
    # a computation that outlasts the 60 s safety window of the callers waiting for it (on its own and on another
    # loop, arriving before and after the first window has expired): still one invocation, one result
    for dur, late in itertools.product([61.0, 150.0], [70.0, 125.0]):
        out.append({'loops': [
            {'name': 'L1', 'start': 0.0, 'callers': [{'c': 1, 'k': 'a'}, {'c': 2, 'k': 'a', 'at': 1.0}], 'life': 'full'},
            {'name': 'L2', 'start': 0.0, 'callers': [{'c': 3, 'k': 'a', 'at': 1.0}, {'c': 4, 'k': 'a', 'at': late}], 'life': 'full'}],
            'func': {'dur': dur}, 'mapping': 'dict', 'strategy': {'kind': 'replay', 'prefix': []}})
    # a loop that stopped with the computation pending is run again later (C05 / C06 only: C01 excludes this history);
    # meanwhile another loop took the key over; the resumed computation then finishes, fails or is cancelled
    for dur, rd, rc, fail in itertools.product([3.0, 6.0], [1.5, 4.0], [None, 1], [[], [1]]):
        out.append({'loops': [
            {'name': 'L1', 'start': 0.0, 'callers': [{'c': 1, 'k': 'a'}, {'c': 2, 'k': 'a', 'at': 0.2}],
             'life': 'early_resume', 'main_dur': 0.5, 'shutdown_delay': rd, 'resume_cancel': rc},
            # (the second loop stays alive - a later call for another key - so that nobody can be thought to be
            #  waiting for a computation stranded on it)
            {'name': 'L2', 'start': 0.0, 'callers': [{'c': 3, 'k': 'a', 'at': 1.0}, {'c': 4, 'k': 'b', 'at': 100.0}], 'life': 'full'}],
            'func': {'dur': dur, 'fail': fail}, 'mapping': 'dict', 'resume': True,
            'strategy': {'kind': 'replay', 'prefix': []}})
    # results that are None / falsy are results like any other: concurrent callers plus a later one
    for ret, mp, dur in itertools.product(['none', 'falsy'], ['dict', 'mm', 'lru'], [0, 1.0]):
        out.append({'loops': [
            {'name': 'L1', 'start': 0.0, 'callers': [{'c': 1, 'k': 'a'}, {'c': 2, 'k': 'a'}], 'life': 'full'},
            {'name': 'L2', 'start': 0.0, 'callers': [{'c': 3, 'k': 'a'}, {'c': 4, 'k': 'a', 'at': 3.0}], 'life': 'full'}],
            'func': {'dur': dur, 'ret': ret}, 'mapping': mp, 'strategy': {'kind': 'replay', 'prefix': []}})
    return out


def nontrivial(sc, r):
    """An execution is non-trivial when at least two calls for one key overlapped in time
    on the trace (a contended key)."""
    open_ = 0
    for e in r['events']:
        if e['e'] == 'CallStart':
            open_ += 1
            if open_ >= 2:
                return True
        elif e['e'] == 'CallEnd':
            open_ -= 1
    return False


SIZES = {
    'quick':    {'contention': 500, 'lifecycle': 500, 'faults': 400, 'mixed': 300, 'evicting': 500},
    'thorough': {'contention': 8000, 'lifecycle': 10000, 'faults': 8000, 'mixed': 8000, 'evicting': 8000},
}

WEIGHT = {  # which families matter most for which property
    'C01': {'contention': 1.5, 'lifecycle': 1.5, 'faults': 0.5, 'mixed': 0.5, 'evicting': 0},
    'C05': {'contention': 0.7, 'lifecycle': 1.3, 'faults': 1.0, 'mixed': 1.0, 'evicting': 0.6},
    'C06': {'contention': 0.4, 'lifecycle': 1.0, 'faults': 1.5, 'mixed': 1.3, 'evicting': 1.2},
}

MC_CFGS = {
    'quick': [('MC_3x1', 300), ('MC_2x2', 300)],
    'thorough': [('MC_3x1', 600), ('MC_2x2', 600), ('MC_3x2', 1500), ('MC_4x1', 1500)],
}


def known_match(k, clause, idx, sc, r):
    return False


def run(ctx):
    import os
    rng = random.Random(ctx.seed * 7919 + hash(ctx.prop) % 1000)
    # 1. the design: exhaustive model checking of the implementation-shaped spec
    from harness.components import cachemodel
    cachemodel.model_check(ctx)
    # 2. the code: executions validated against the contract
    sz = SIZES[ctx.tier]
    w = WEIGHT[ctx.prop]
    executed = ctx.run_and_validate(DRIVER, COMP, TRACE,
                                    [sc for sc in directed() if not (ctx.prop == 'C01' and sc.get('resume'))],
                                    'directed', nontrivial=nontrivial, known_match=known_match)
    sw = [sc for sc in stall_sweep(ctx.tier) if not (ctx.prop == 'C01' and sc['mapping'] == 'tiny')]
    ctx.run_and_validate(DRIVER, COMP, TRACE, sw, 'stall_sweep', nontrivial=nontrivial, known_match=known_match)
    for fam, gen in (('contention', fam_contention), ('lifecycle', fam_lifecycle),
                     ('faults', fam_faults), ('mixed', fam_mixed), ('evicting', fam_evicting)):
        n = int(sz[fam] * w[fam])
        for off in range(0, n, 4000):
            scs = gen(rng, min(4000, n - off))
            for sc in scs:        # what a successful invocation returns: mostly an object, sometimes None / a falsy object
                r = rng.random()
                if r < 0.12:
                    sc['func']['ret'] = 'none'
                elif r < 0.2:
                    sc['func']['ret'] = 'falsy'
                if rng.random() < 0.2:     # a plain function returning an awaitable (may raise from the call itself)
                    sc['func']['form'] = 'plain'
            out = ctx.run_and_validate(DRIVER, COMP, TRACE, scs, fam,
                                       nontrivial=nontrivial, known_match=known_match)
            if len(executed) < 4000:
                executed += out[:600]
    # 2b. systematic schedule exploration (preemption-bounded) of the smallest scenarios
    small = [
        ('dfs_2loops_zero', {'loops': [{'name': 'L1', 'callers': [{'c': 1, 'k': 'a'}], 'life': 'full'},
                                       {'name': 'L2', 'callers': [{'c': 2, 'k': 'a'}], 'life': 'full'}],
                             'func': {'dur': 0}, 'mapping': 'dict'}, 2),
        ('dfs_3loops_tiny', {'loops': [{'name': 'L1', 'callers': [{'c': 1, 'k': 'a'}], 'life': 'full'},
                                       {'name': 'L2', 'callers': [{'c': 2, 'k': 'a'}], 'life': 'full'},
                                       {'name': 'L3', 'callers': [{'c': 3, 'k': 'b'}], 'life': 'full'}],
                             'func': {'dur': 0}, 'mapping': 'tiny'}, 2),
        ('dfs_2loops_early', {'loops': [{'name': 'L1', 'callers': [{'c': 1, 'k': 'a'}], 'life': 'early', 'main_dur': 0.0},
                                        {'name': 'L2', 'callers': [{'c': 2, 'k': 'a'}], 'life': 'full'}],
                              'func': {'dur': 1.0}, 'mapping': 'dict'}, 2),
    ]
    small.append(('dfs_3loops_earlyclose',
                  {'loops': [{'name': 'L1', 'callers': [{'c': 1, 'k': 'a'}], 'life': 'early_close', 'main_dur': 0.0},
                             {'name': 'L2', 'callers': [{'c': 2, 'k': 'a'}], 'life': 'full'},
                             {'name': 'L3', 'callers': [{'c': 3, 'k': 'a'}], 'life': 'full'}],
                   'func': {'dur': 1.0}, 'mapping': 'dict'}, 2))
    for fam, sc, bound in small:
        if ctx.prop == 'C01' and sc['mapping'] == 'tiny':
            continue
        ctx.explore_dfs(DRIVER, COMP, TRACE, sc, fam, bound=bound, budget=2500 if ctx.tier == 'quick' else 60000,
                        seed=ctx.seed, nontrivial=nontrivial, known_match=known_match)
    # 3. spec -> code: behaviours of the model replayed into the implementation
    cachemodel.conformance(ctx, executed, limit=40 if ctx.tier == 'quick' else 600)
    return ctx.finish(
        rule='scenario = loops x callers x durations x life cycles x faults (generators in '
             'harness/components/cachecomp.py, seeded by VERIF_SEED) executed under random/PCT/default '
             'line-level schedules; distinct = distinct observable traces; non-trivial = at least two '
             'calls for the key were pending at once')
