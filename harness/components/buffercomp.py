"""Checks for buffer_until_timeout: C03 (never lost), C07 (barrier / returns / shutdown),
C08 (debounce)."""
import random
import itertools

DRIVER = 'harness.drivers.buffer'
COMP = 'buffer'
TRACE = 'BufferTrace'


def cfg_event(tau):
    return {'n': 0, 't': 0, 'e': 'Config', 'tau': int(round(tau * 1000))}


def end_time(prog, tau, func, extra=0.0):
    last = max([it['at'] + it.get('delay', 0) + it.get('step', 0) * (len(it.get('xs', [])) + 1)
                for it in prog] + [0.0])
    dmax = max([func.get('dur', 0.0)] + list(func.get('durs', {}).values()))
    nf = len(func.get('fail', []))
    return last + (nf + 4) * (tau + dmax + 1.0) + 10.0 + extra


def arrival_grid(tau, n):
    gaps = [0.0, tau - 1.0, tau, tau + 1.0, 2 * tau]
    for combo in itertools.product(gaps, repeat=n - 1):
        t = 0.0
        times = [0.0]
        for g in combo:
            t += g
            times.append(t)
        yield times


def c08_grid(tier):
    """Exhaustive arrival-time grids for immediate arguments."""
    out = []
    nmax = 4 if tier == 'quick' else 6
    for tau in ([4.0] if tier == 'quick' else [4.0, 2.0]):
        for n in range(1, nmax + 1):
            for times in arrival_grid(tau, n):
                for dur, fail in ((0.0, []), (2.0, []), (tau + 2.0, []), (0.0, [1]), (tau + 2.0, [1]), (1.0, [1, 2])):
                    if n >= 5 and (dur, fail) not in ((0.0, []), (tau + 2.0, [])):
                        continue
                    for kind in (('call', 'map') if n <= 3 else ('call',)):
                        prog = []
                        x = 0
                        for i, t in enumerate(times):
                            if kind == 'call' or i % 2 == 0:
                                x += 1
                                prog.append({'at': t, 'op': 'call', 'id': i + 1, 'x': x})
                            else:
                                prog.append({'at': t, 'op': 'map', 'id': i + 1, 'xs': [x + 1, x + 2], 'kind': 'list'})
                                x += 2
                        func = {'dur': dur, 'fail': fail}
                        out.append({'timeout': tau, 'func': func, 'prog': prog,
                                    'end': end_time(prog, tau, func)})
    return out


def gen_prog(rng, nsub, tau, waits=0, shutdown=False, imm_only=False):
    gaps = [0.0, 0.0, tau - 1.0, tau, tau + 1.0, 2 * tau, 1.0]
    prog = []
    t = 0.0
    x = 0
    for i in range(nsub):
        if i:
            t += rng.choice(gaps)
        kind = rng.choice(['call', 'call', 'map_list', 'map_iter'] if imm_only else
                          ['call', 'call', 'await', 'map_list', 'map_iter', 'amap'])
        sid = i + 1
        if kind == 'call':
            x += 1
            prog.append({'at': t, 'op': 'call', 'id': sid, 'x': x})
        elif kind == 'await':
            x += 1
            prog.append({'at': t, 'op': 'await', 'id': sid, 'x': x,
                         'delay': rng.choice([0.0, 1.0, tau, tau + 1.0]),
                         'fail': rng.choice([False, False, False, True, 'cancel'])})
        else:
            k = rng.choice([0, 1, 2, 3])
            xs = list(range(x + 1, x + 1 + k))
            x += k
            it = {'at': t, 'op': 'amap' if kind == 'amap' else 'map', 'id': sid, 'xs': xs}
            if kind == 'map_list':
                it['kind'] = 'list'
            else:
                if kind == 'map_iter':
                    it['kind'] = 'iter'
                if not imm_only:
                    it['fail_at'] = rng.choice([None, None, None] + list(range(k + 1)))
                    it['step'] = rng.choice([0.0, 0.0, 1.0, tau])
                    if kind == 'amap' and rng.random() < 0.3:
                        it['fail_kind'] = 'cancel'
            prog.append(it)
    for w in range(waits):
        wt = {'at': rng.choice([it['at'] for it in prog] or [0.0]) + rng.choice([0.0, 0.0, 1.0, tau - 1.0, tau, tau + 1.0]),
              'op': 'wait', 'w': w + 1, 'cancel': rng.random() < 0.6}
        if rng.random() < 0.35:      # "buf(x); await buf.wait()" in one coroutine step
            x += 1
            wt['submit_first'] = {'op': 'call', 'id': 50 + w, 'x': x}
        prog.append(wt)
    if shutdown:
        tmax = max([it['at'] for it in prog] or [0.0])
        prog.append({'at': rng.choice([0.0, 1.0, tau - 1.0, tau, tau + 1.0, tmax, tmax + 1.0, tmax + tau, tmax + tau + 1.0,
                                       tmax + 2 * tau + 1.0]), 'op': 'shutdown'})
    prog.sort(key=lambda it: it['at'])
    return prog


def gen_func(rng, tau):
    nf = rng.choice([0, 0, 1, 1, 2, 3])
    fl = sorted(rng.sample([1, 2, 3, 4, 5, 6], nf))
    return {'dur': rng.choice([0.0, 0.0, 1.0, tau - 1.0, tau + 2.0]), 'fail': fl,
            'fail_cancel': [x for x in fl if rng.random() < 0.3]}


def fam_programs(rng, n, nsub_max, waits, shutdown=False, imm_only=False):
    out = []
    for _ in range(n):
        tau = rng.choice([4.0, 4.0, 2.0])
        func = gen_func(rng, tau)
        prog = gen_prog(rng, rng.randint(1, nsub_max), tau, waits=rng.randint(0, waits),
                        shutdown=shutdown, imm_only=imm_only)
        out.append({'timeout': tau, 'func': func, 'prog': prog, 'end': end_time(prog, tau, func),
                    'form': rng.choice(['direct', 'direct', 'options', 'class'])})
    return out


def fam_model_scope(rng, n, shutdown=False):
    """Programs in the alphabet of Buffer.tla (plain calls, awaitables that deliver or fail after a delay on the
    grid, maps of an empty list, wait() calls) - judged by the contract like every other execution and, in addition,
    eligible for conformance with the timed model."""
    out = []
    for _ in range(n):
        tau = rng.choice([2.0, 2.0, 1.0])
        prog, t, x = [], 0.0, 0
        for i in range(rng.randint(1, 4)):
            if i:
                t += rng.choice([0.0, 0.5, tau - 0.5, tau, tau + 0.5, 1.0])
            kind = rng.choice(['call', 'await', 'await', 'afail', 'empty'])
            sid = i + 1
            if kind == 'empty':
                prog.append({'at': t, 'op': 'map', 'id': sid, 'xs': [], 'kind': 'list'})
            else:
                x += 1
                if kind == 'call':
                    prog.append({'at': t, 'op': 'call', 'id': sid, 'x': x})
                else:
                    prog.append({'at': t, 'op': 'await', 'id': sid, 'x': x, 'fail': kind == 'afail',
                                 'delay': rng.choice([0.0, 0.5, 1.0, tau, tau + 0.5])})
        for w in range(rng.randint(0, 2)):
            prog.append({'at': rng.choice([it['at'] for it in prog]) + rng.choice([0.0, 0.5, tau - 0.5, tau, tau + 0.5]),
                         'op': 'wait', 'w': w + 1, 'cancel': rng.random() < 0.6})
        if shutdown and rng.random() < 0.4:     # the loop shuts down after the last operation, at any phase of the processing
            prog.append({'at': max(it['at'] for it in prog) + rng.choice([0.5, 1.0, tau - 0.5, tau, tau + 0.5, tau + 1.0, 2 * tau, 2 * tau + 1.0]),
                         'op': 'shutdown'})
        prog.sort(key=lambda it: it['at'])
        func = {'dur': rng.choice([0.0, 0.5, 1.0]), 'fail': rng.choice([[], [], [1], [1, 2]])}
        out.append({'timeout': tau, 'func': func, 'prog': prog, 'end': end_time(prog, tau, func),
                    'form': rng.choice(['direct', 'options', 'class'])})
    return out


def fam_big_bursts():
    """Bursts far larger than anything the small programs contain (hundreds / thousands of submissions in one loop
    iteration), flushed by the quiet timer, by wait(cancel=True) or observed by wait(cancel=False); one or two bursts."""
    out = []
    for n, wait, second in itertools.product([300, 1100, 2100], [None, True, False], [False, True]):
        prog = [{'at': 0.0, 'op': 'call', 'id': i + 1, 'x': i + 1} for i in range(n)]
        if second:
            prog += [{'at': 5.0, 'op': 'call', 'id': n + i + 1, 'x': n + i + 1} for i in range(3)]
        if wait is not None:
            prog.append({'at': 0.5, 'op': 'wait', 'w': 1, 'cancel': wait})
            if second:
                prog.append({'at': 5.5, 'op': 'wait', 'w': 2, 'cancel': wait})
        prog.sort(key=lambda it: it['at'])
        out.append({'timeout': 2.0, 'func': {'dur': 0.0, 'fail': []}, 'prog': prog, 'end': 30.0, 'form': 'direct',
                    'trace': False, 'wall': 60.0})
    # one submission with very many elements: a list (loaded in the loop) / an iterator (drained by a worker thread
    # that runs far ahead of the loop: thousands of hand-over callbacks are pending at once)
    for n, kind, pre in itertools.product([300, 1100, 3000], ['iter', 'list'], [False, True]):
        prog = [{'at': 0.0, 'op': 'call', 'id': 1, 'x': 0}] if pre else []
        prog.append({'at': 1.0, 'op': 'map', 'id': 2, 'xs': list(range(1, n + 1)), 'kind': kind})
        out.append({'timeout': 2.0, 'func': {'dur': 0.0, 'fail': []}, 'prog': prog, 'end': 30.0, 'form': 'direct',
                    'trace': False, 'wall': 60.0})
    return out


def fam_foreign(rng, n):
    out = []
    for _ in range(n):
        tau = 4.0
        func = {'dur': rng.choice([0.0, 0.0, 1.0]), 'fail': rng.choice([[], [], [1]])}
        prog = gen_prog(rng, rng.randint(0, 2), tau, waits=rng.randint(0, 1), imm_only=True)
        foreign = []
        x = 100
        for f in range(rng.choice([1, 1, 2])):
            fp = []
            for j in range(rng.randint(1, 3)):
                x += 1
                fp.append({'op': 'call', 'id': x, 'x': x, 'delay': rng.choice([0.0, 0.0, 1.0, tau])})
            if rng.random() < 0.8:
                fp.append({'op': 'wait', 'w': 10 + f, 'cancel': rng.random() < 0.6})
                if rng.random() < 0.3:
                    x += 1
                    fp.append({'op': 'call', 'id': x, 'x': x})
                    fp.append({'op': 'wait', 'w': 20 + f, 'cancel': True})
            foreign.append({'name': 'F%d' % (f + 1), 'start': rng.choice([0.0, 0.0, 1.0, tau, tau + 1.0]), 'prog': fp})
        st = rng.random()
        strat = ({'kind': 'random', 'seed': rng.randrange(1 << 30), 'stick': rng.choice([0.0, 0.5, 0.9])} if st < 0.4
                 else {'kind': 'pct', 'seed': rng.randrange(1 << 30), 'depth': rng.choice([1, 2, 3]), 'est_len': 200})
        sc = {'timeout': tau, 'func': func, 'prog': prog, 'foreign': foreign, 'strategy': strat,
              'trace': True, 'end': end_time(prog, tau, func, extra=8 * tau + 10)}
        if rng.random() < 0.3:      # a foreign thread descheduled for a long time in the middle of a call
            sc['stalls'] = {rng.choice(foreign)['name']: [rng.randint(1, 25), rng.choice([1.0, tau + 1.0, 2 * tau + 1.0])]}
        out.append(sc)
    return out


def foreign_stall_sweep(tier):
    """Fixed programs with one or two foreign submitting threads; each foreign thread in turn is descheduled for a
    while at its k-th source line inside the buffer code, for every k (the windows between event.clear() and the
    scheduled put, between submit and wait_from_anywhere, ... held open while the loop goes through a whole cycle)."""
    out = []
    tau = 4.0
    bases = [
        ([{'at': 0.0, 'op': 'call', 'id': 1, 'x': 1}],
         [{'name': 'F1', 'start': 1.0, 'prog': [{'op': 'call', 'id': 101, 'x': 101}, {'op': 'wait', 'w': 10, 'cancel': True}]}],
         {'dur': 0.0, 'fail': []}),
        ([{'at': 0.0, 'op': 'call', 'id': 1, 'x': 1}, {'at': 3.0, 'op': 'wait', 'w': 1, 'cancel': True}],
         [{'name': 'F1', 'start': 0.0, 'prog': [{'op': 'call', 'id': 101, 'x': 101}, {'op': 'call', 'id': 102, 'x': 102, 'delay': 1.0},
                                                {'op': 'wait', 'w': 10, 'cancel': False}]},
          {'name': 'F2', 'start': 0.5, 'prog': [{'op': 'call', 'id': 201, 'x': 201}, {'op': 'wait', 'w': 20, 'cancel': True}]}],
         {'dur': 1.0, 'fail': [1]}),
    ]
    for prog, foreign, func in bases:
        for fs in foreign:
            for k in range(1, 41 if tier == 'quick' else 91):
                for d in ([tau + 1.0] if tier == 'quick' else [1.0, tau + 1.0, 2 * tau + 1.0]):
                    out.append({'timeout': tau, 'func': dict(func), 'prog': [dict(it) for it in prog],
                                'foreign': [dict(f, prog=[dict(it) for it in f['prog']]) for f in foreign],
                                'strategy': {'kind': 'replay', 'prefix': []}, 'trace': True,
                                'end': end_time(prog, tau, func, extra=10 * tau + 10), 'stalls': {fs['name']: [k, d]}})
    return out


def fam_foreign_idle(rng, n):
    """C08 with arrivals from another thread while the loop is idle (no line-level tracing needed: the
    interesting quantity is *when* the function is called in virtual time)."""
    out = []
    for _ in range(n):
        tau = 4.0
        prog = []
        if rng.random() < 0.5:
            prog.append({'at': 0.0, 'op': 'call', 'id': 1, 'x': 1})
        foreign = []
        x = 100
        t = rng.choice([0.0, 1.0, tau + 2.0, 3 * tau])
        fp = []
        for j in range(rng.randint(1, 3)):
            x += 1
            fp.append({'op': 'call', 'id': x, 'x': x, 'delay': rng.choice([0.0, 1.0, tau - 1.0, tau + 1.0]) if j else 0.0})
        if rng.random() < 0.5:      # an observer that does not force a flush: wait_from_anywhere(cancel=False)
            fp.append({'op': 'wait', 'w': 1, 'cancel': False, 'delay': rng.choice([0.0, 1.0, tau - 1.0])})
        foreign.append({'name': 'F1', 'start': t, 'prog': fp})
        func = {'dur': rng.choice([0.0, 1.0]), 'fail': []}
        out.append({'timeout': tau, 'func': func, 'prog': prog, 'foreign': foreign, 'trace': False,
                    'end': end_time(prog, tau, func, extra=t + 6 * tau)})
    return out


def with_cfg(scs):
    return scs


def known_match(k, clause, idx, sc, r):
    return False


def nontrivial(sc, r):
    return sum(1 for e in r['events'] if e['e'] == 'FuncStart') >= 1 and \
        sum(1 for e in r['events'] if e['e'] == 'Submit') >= 2


class _Cfg:
    """Prefix every trace with its Config event (the contract is parameterised by tau)."""


def run(ctx):
    rng = random.Random(ctx.seed * 31 + {'C03': 3, 'C07': 7, 'C08': 8}[ctx.prop])
    from harness.components import buffermodel
    buffermodel.model_check(ctx)
    q = ctx.tier == 'quick'

    executed = []

    def go(scs, fam):
        for off in range(0, len(scs), 6000):
            out = ctx.run_and_validate(DRIVER, COMP, TRACE, scs[off:off + 6000], fam, nontrivial=nontrivial,
                                       known_match=known_match)
            if len(executed) < 4000:
                executed.extend(out[:2000])

    if ctx.prop == 'C08':
        go(c08_grid(ctx.tier), 'arrival_grid')
        go(fam_programs(rng, 600 if q else 20000, 5, 0, imm_only=True), 'imm_programs')
        go(fam_foreign_idle(rng, 300 if q else 6000), 'foreign_arrivals')
        obs = fam_programs(rng, 400 if q else 8000, 4, 2, imm_only=True)
        for sc in obs:              # observers that do not force a flush: wait(cancel=False) leaves the debounce timing alone
            for it in sc['prog']:
                if it['op'] == 'wait':
                    it['cancel'] = False
                    it.pop('submit_first', None)
        go(obs, 'imm_programs_with_observers')
    elif ctx.prop == 'C03':
        go(fam_programs(rng, 2500 if q else 40000, 5 if q else 8, 2), 'programs')
        go(fam_foreign(rng, 500 if q else 12000), 'foreign_threads')
        go(c08_grid('quick')[:600] if q else c08_grid('quick'), 'arrival_grid')
    else:
        go(fam_programs(rng, 2000 if q else 30000, 5 if q else 7, 3), 'programs_with_waits')
        go(fam_programs(rng, 1200 if q else 20000, 4, 1, shutdown=True), 'shutdown_instants')
        go(fam_foreign(rng, 500 if q else 12000), 'foreign_threads')
    go(fam_big_bursts(), 'big_bursts')
    if ctx.prop in ('C03', 'C07'):
        go(foreign_stall_sweep(ctx.tier), 'foreign_stall_sweep')
    if ctx.prop in ('C03', 'C07'):
        go(fam_model_scope(rng, 300 if q else 5000, shutdown=ctx.prop == 'C07'), 'model_scope_producers')
    if ctx.prop == 'C07':      # make sure some plain-call-plus-wait programs are in the conformance sample
        go(fam_programs(rng, 200 if q else 2000, 4, 2, imm_only=True), 'imm_programs_with_waits')
    # implementation conformance: a sample of the recorded executions against the timed model itself
    buffermodel.conformance(ctx, executed, limit=40 if q else 400)
    return ctx.finish(
        rule='timed programs in virtual time: submissions (plain / awaitable / sync iterable incl. worker-thread '
             'iterators / async iterable, producer delays and failures at any position) with gaps on the grid '
             '{0, tau-1, tau, tau+1, 2tau}, wait(cancel) calls and loop shutdown at grid instants, failing '
             'invocations (subsets of the first 6), durations {0, <tau, >tau}; foreign submitting threads '
             'under random/PCT line-level schedules; C08 additionally the exhaustive arrival grid; distinct = '
             'distinct observable traces; non-trivial = at least 2 submissions and one invocation')
