"""Checks for aiuti.filelock: C02 (mutual exclusion), C12 (Lock/RLock contract, no residue),
C13 (crashed holder)."""
import os
import re
import sys
import json
import random
import time
import subprocess

from harness import tlc, core

DRIVER = 'harness.drivers.filelock'
COMP = 'filelock'
TRACE = 'LockTrace'

CFGS = {
    'NN': {"reentrant": [False, False], "deftimeout": [-1, -1], "poll": 50},
    'RN': {"reentrant": [True, False], "deftimeout": [-1, 100], "poll": 50},
    'RR': {"reentrant": [True, True], "deftimeout": [100, 0], "poll": 50},
    'R1': {"reentrant": [True], "deftimeout": [-1], "poll": 50},
}


def parse_seqs(out):
    seqs = []
    for chunk in re.split(r'"SEQ"', re.sub(r'\s+', ' ', out))[1:]:
        ops = re.findall(r'<< ?"(\w+)", "(\w+)", (\d+), (TRUE|FALSE), (-?\d+), "(\w*)" ?>>', chunk)
        if ops:
            seqs.append([[a, b, int(c), d == 'TRUE', int(e), f] for a, b, c, d, e, f in ops])
    return seqs


def known_match(k, clause, idx, sc, r):
    return False


# ------------------------------------------------------------------ C12

def run_c12(ctx):
    rng = random.Random(ctx.seed + 12)
    total_pairs = 0
    for name, cfg in CFGS.items():
        # spec -> code: every (reference state, operation) pair reachable within 7 operations
        out, dt, rc = tlc.run_tlc(COMP, 'MC_LockSeq', 'Cover_%s.cfg' % name, workers=1, timeout=600)
        r = tlc.parse_mc(out)
        if r['error'] or not r['complete']:
            raise core.MachineryError('LockSeq cover %s failed: %s\n%s' % (name, r['error'], out[-2000:]))
        seqs = parse_seqs(out)
        if len(seqs) < r['distinct'] or len(seqs) < 500:
            raise core.MachineryError('LockSeq cover %s: parsed only %d sequences (%d states)'
                                      % (name, len(seqs), r['distinct']))
        ctx.cov['states'] += r['distinct']
        ctx.cov['transitions'] += r['generated']
        ctx.cov['mc_runs'].append({'module': 'LockSeq', 'cfg': 'Cover_' + name, 'distinct': r['distinct'],
                                   'generated': r['generated'], 'seconds': round(dt, 1),
                                   'state_op_pairs': len(seqs)})
        total_pairs += len(seqs)
        scs = [{'mode': 'seq', 'cfg': cfg, 'seq': s} for s in seqs]
        ctx.run_and_validate(DRIVER, COMP, TRACE, scs, 'cover_' + name, known_match=known_match)
        if name == 'RN':
            # the same cover with an explicit poll_interval of 10 ms handed to acquire() / acquire_ctx() (the
            # reference gets it through the Config event): the time bounds scale with it
            cfg10 = dict(cfg, poll=10)
            scs = [{'mode': 'seq', 'cfg': cfg10, 'seq': s} for s in seqs]
            ctx.run_and_validate(DRIVER, COMP, TRACE, scs, 'cover_RN_poll10', known_match=known_match)
        # random longer behaviours of the reference model (TLC simulation)
        n = 400 if ctx.tier == 'quick' else 6000
        out, dt, rc = tlc.run_tlc(COMP, 'MC_LockSeq', 'Sim_%s.cfg' % name, workers=1, timeout=600,
                                  simulate='num=%d' % n, depth=8,
                                  extra=['-seed', str(ctx.seed + 101)])
        sims = [s for s in parse_seqs(out) if len(s) == 7]
        if len(sims) < n // 2:
            raise core.MachineryError('LockSeq simulation %s produced only %d behaviours\n%s'
                                      % (name, len(sims), out[-1500:]))
        scs = [{'mode': 'seq', 'cfg': cfg, 'seq': s} for s in sims]
        ctx.run_and_validate(DRIVER, COMP, TRACE, scs, 'sim_' + name, known_match=known_match)
    # exhaustive short sequences (all sequences of length <= 2 are contained in the covers' prefixes only
    # partially): enumerate them with the generator bounded to MaxLen 2 and no VIEW
    if ctx.tier == 'thorough':
        for name, cfg in CFGS.items():
            text = open(os.path.join(tlc.SPECS, COMP, 'Cover_%s.cfg' % name)).read()
            text = text.replace('MaxLen = 7', 'MaxLen = 2').replace('VIEW View\n', '')
            out, dt, rc = tlc.run_tlc(COMP, 'MC_LockSeq', 'All2_%s.cfg' % name, workers=1, timeout=900,
                                      cfg_text=text)
            seqs = parse_seqs(out)
            scs = [{'mode': 'seq', 'cfg': cfg, 'seq': s} for s in seqs if len(s) == 2]
            for off in range(0, len(scs), 20000):
                ctx.run_and_validate(DRIVER, COMP, TRACE, scs[off:off + 20000], 'all2_' + name,
                                     known_match=known_match)
    # overlapping operations of several threads: whatever the interleaving, nothing is left behind once everybody is
    # done - every object can take the lock again, no descriptor stays open.  (No thread ever releases an object it
    # does not hold here: with threads overlapping, "unheld" cannot be told from "held by somebody else by now",
    # which is outside the contract.)
    conc = [sc for sc in gen_conc(rng, 1500 if ctx.tier == 'quick' else 30000, max_threads=3) if not sc.get('faults')]
    for sc in conc:
        sc['final_probe'] = True
    ctx.run_and_validate(DRIVER, COMP, TRACE, conc, 'concurrent_residue', nontrivial=nontrivial_conc,
                         known_match=known_match)
    ctx.run_and_validate(DRIVER, COMP, TRACE, unheld_release_cases(ctx.tier), 'unheld_release_during_wait',
                         known_match=known_match)
    swept = ctx.run_and_validate(DRIVER, COMP, TRACE, residue_stall_sweep(ctx.tier), 'residue_stall_sweep',
                                 known_match=known_match)
    from harness.components import filelockmodel
    filelockmodel.model_check(ctx)
    # implementation conformance of the overlapping executions: every k-th of the sweep against FileLock.tla
    step = max(1, len(swept) // (32 if ctx.tier == 'quick' else 300))
    filelockmodel.conformance(ctx, swept[::step], limit=32 if ctx.tier == 'quick' else 300)
    ctx.cov['state_op_pairs_covered'] = total_pairs
    return ctx.finish(
        rule='operation sequences generated by TLC from the reference model LockRef.tla: a cover of every '
             '(reference state, operation) pair reachable within 7 operations (VIEW on holder/owner/depth/'
             'faults used), plus simulated length-7 behaviours; 2 threads x up to 2 objects, 4 '
             'configurations, every acquire form x blocking x timeout in {None,-1,0,100ms} x one OSError '
             'injected into open/lock/unlock/close, at most 2 faults per sequence; each sequence is '
             'executed on the real FileLock (real descriptors, real flock) and every step compared with '
             'Apply() by TLC; distinct = distinct observable traces')


def unheld_release_cases(tier):
    """"Releasing an unheld lock is a no-op" while somebody else is *waiting* for that object: object 2 holds the OS
    lock for the whole window, T2 is inside a timed acquire of object 1 (it owns 1's in-process lock and has counted
    itself in, but 1 holds nothing), T3 calls release() on 1.  By construction 1 is never held at that instant, so
    the call is inside the contract whatever the schedule; afterwards T2 either times out (False, nothing kept) or
    gets the lock once 2 lets go, and at the end nothing may be left behind."""
    out = []
    for reent in (False, True):
        for hold2, t2_timeout, rel_at in ((1.0, 100, 0.03), (1.0, 100, 0.08), (1.0, 300, 0.03), (1.0, 300, 0.2),
                                          (1.0, 0, 0.005), (0.06, 300, 0.03), (0.06, 100, 0.03), (0.06, -1, 0.03)):
            for form in ('acquire', 'ctx'):
                threads = {'T1': [{'form': 'acquire', 'o': 2, 'blocking': True, 'timeout': -1, 'hold': hold2}],
                           'T2': [{'form': form, 'o': 1, 'blocking': True, 'timeout': t2_timeout, 'hold': 0.05,
                                   'delay': 0.01}],
                           'T3': [{'spurious': 1, 'only_spurious': True, 'delay': rel_at}]}
                base = {'mode': 'conc', 'cfg': {'reentrant': [reent, False], 'deftimeout': [-1, -1], 'poll': 50},
                        'threads': threads, 'trace': True, 'final_probe': True,
                        'strategy': {'kind': 'replay', 'prefix': []}}
                out.append(base)
                if hold2 >= 1.0:
                    # ... and with either thread descheduled for a while at its k-th line (object 1 is never held in
                    # these programs, so the release stays an unheld one wherever it lands)
                    for thr in ('T2', 'T3'):
                        for k in range(1, 31 if tier == 'quick' else 61, 1 if tier != 'quick' else 2):
                            out.append(dict(base, stalls={thr: [k, 0.25]}))
    return out


def residue_stall_sweep(tier):
    """A thread descheduled at its k-th line for longer than the other threads need to finish their rounds on the
    same object (failure path / release path racing a complete acquire-release of somebody else); afterwards no
    object may claim the lock and every object can take it."""
    out = []
    bases = [
        # a refused attempt on the shared object 1 while 2 holds the lock; T3 then takes and gives back 1
        {'T1': [{'form': 'acquire', 'o': 2, 'blocking': True, 'timeout': -1, 'hold': 0.1}],
         'T2': [{'form': 'acquire', 'o': 1, 'blocking': False, 'timeout': -2, 'hold': 0, 'delay': 0.01}],
         'T3': [{'form': 'acquire', 'o': 1, 'blocking': True, 'timeout': -1, 'hold': 0.05, 'delay': 0.05}]},
        # the same with a timed attempt that runs out
        {'T1': [{'form': 'acquire', 'o': 2, 'blocking': True, 'timeout': -1, 'hold': 0.15}],
         'T2': [{'form': 'ctx', 'o': 1, 'blocking': True, 'timeout': 50, 'hold': 0, 'delay': 0.01}],
         'T3': [{'form': 'with', 'o': 1, 'hold': 0.05, 'delay': 0.05}]},
        # a holder releasing while two others queue for the same object
        {'T1': [{'form': 'acquire', 'o': 1, 'blocking': True, 'timeout': -1, 'hold': 0.05}],
         'T2': [{'form': 'acquire', 'o': 1, 'blocking': True, 'timeout': -1, 'hold': 0.02, 'delay': 0.01}],
         'T3': [{'form': 'acquire', 'o': 1, 'blocking': True, 'timeout': 100, 'hold': 0.02, 'delay': 0.02},
                {'form': 'acquire', 'o': 2, 'blocking': False, 'timeout': -2, 'hold': 0, 'delay': 0.3}]},
    ]
    for threads in bases:
        for reent in (False, True):
            for thr in sorted(threads):
                for k in range(1, 51 if tier == 'quick' else 121):
                    out.append({'mode': 'conc', 'cfg': {'reentrant': [reent, False], 'deftimeout': [-1, -1], 'poll': 50},
                                'threads': threads, 'trace': True, 'final_probe': True,
                                'stalls': {thr: [k, 0.6]}, 'strategy': {'kind': 'replay', 'prefix': []}})
    return out


# ------------------------------------------------------------------ C02

def gen_conc(rng, n, max_threads=4):
    out = []
    for _ in range(n):
        nt = rng.choice([2, 2, 3, 3, 4][:max_threads + 1])
        nobj = rng.choice([1, 2, 2])
        reent = [rng.random() < 0.4 for _ in range(nobj)]
        deft = [rng.choice([-1, -1, 0, 100]) for _ in range(nobj)]
        threads = {}
        for t in range(nt):
            rounds = []
            for _ in range(rng.choice([1, 1, 2, 3])):
                o = rng.randrange(nobj) + 1
                form = rng.choice(['acquire', 'acquire', 'ctx', 'with'])
                mode = rng.choice(['block', 'block', 'nb', 'timed0', 'timed', 'default'])
                r = {'form': form, 'o': o, 'hold': rng.choice([0, 0, 0.05, 0.2]),
                     'delay': rng.choice([0, 0, 0, 0.05])}
                if form != 'with':
                    if mode == 'block':
                        r.update(blocking=True, timeout=-1)
                    elif mode == 'nb':
                        r.update(blocking=False, timeout=-2)
                    elif mode == 'timed0':
                        r.update(blocking=True, timeout=0)
                    elif mode == 'timed':
                        r.update(blocking=rng.random() < 0.5, timeout=100)
                    else:
                        r.update(blocking=True, timeout=-2)
                if reent[o - 1] and rng.random() < 0.4:
                    r['nest'] = 1
                rounds.append(r)
            threads['T%d' % (t + 1)] = rounds
        st = rng.random()
        if st < 0.3:
            strat = {'kind': 'random', 'seed': rng.randrange(1 << 30), 'stick': rng.choice([0, 0.5, 0.9])}
        elif st < 0.9:
            strat = {'kind': 'pct', 'seed': rng.randrange(1 << 30), 'depth': rng.choice([1, 2, 3, 4]), 'est_len': 150}
        else:
            strat = {'kind': 'replay', 'prefix': []}
        sc = {'mode': 'conc', 'cfg': {'reentrant': reent, 'deftimeout': deft, 'poll': 50},
              'threads': threads, 'strategy': strat, 'trace': True,
              'opcodes': rng.random() < 0.15}
        if rng.random() < 0.25:     # transient OS errors while contending
            sc['faults'] = [{'site': rng.choice(['open', 'lock', 'open', 'lock', 'unlock', 'close']),
                             'nth': rng.randint(1, 4)} for _ in range(rng.choice([1, 1, 2]))]
        out.append(sc)
    return out


def deadlock_free(sc):
    """C02 scenarios must not self-deadlock by construction: a thread that already holds one
    object never *blocks without time-out* on another object of the same path."""
    return True


def nontrivial_conc(sc, r):
    return sum(1 for e in r['events'] if e['e'] == 'Enter') >= 2


def run_c02(ctx):
    rng = random.Random(ctx.seed + 2)
    from harness.components import filelockmodel
    filelockmodel.model_check(ctx)
    n = 2500 if ctx.tier == 'quick' else 60000
    executed = []
    for off in range(0, n, 5000):
        out = ctx.run_and_validate(DRIVER, COMP, TRACE, gen_conc(rng, min(5000, n - off)), 'threads',
                                   nontrivial=nontrivial_conc, known_match=known_match)
        if len(executed) < 3000:
            executed.extend(out[:1500])
    # implementation conformance: a sample of these executions against FileLock.tla itself
    filelockmodel.conformance(ctx, executed, limit=24 if ctx.tier == 'quick' else 300)
    # systematic (preemption-bounded) exploration of the smallest contended scenarios
    small = [
        ('dfs_fail_vs_success', {'mode': 'conc', 'cfg': {'reentrant': [False, False], 'deftimeout': [-1, -1], 'poll': 50},
                                 'threads': {'T1': [{'form': 'acquire', 'o': 1, 'blocking': False, 'timeout': -2, 'hold': 0}],
                                             'T2': [{'form': 'acquire', 'o': 1, 'blocking': True, 'timeout': -1, 'hold': 0}],
                                             'T3': [{'form': 'acquire', 'o': 2, 'blocking': True, 'timeout': -1, 'hold': 0},
                                                    {'form': 'acquire', 'o': 2, 'blocking': False, 'timeout': -2, 'hold': 0}]},
                                 'trace': True}, 2),
        ('dfs_shared_reentrant', {'mode': 'conc', 'cfg': {'reentrant': [True], 'deftimeout': [-1], 'poll': 50},
                                  'threads': {'T1': [{'form': 'with', 'o': 1, 'hold': 0, 'nest': 1}],
                                              'T2': [{'form': 'ctx', 'o': 1, 'blocking': True, 'timeout': 100, 'hold': 0}]},
                                  'trace': True}, 2),
    ]
    # stall sweep: in a few fixed programs, each thread in turn is descheduled for a while at its k-th source line,
    # for every k (what a preemption-bounded search cannot do: the other threads are asleep at that moment, time
    # has to pass)
    sweep = []
    bases = [
        {'T1': [{'form': 'acquire', 'o': 1, 'blocking': True, 'timeout': -1, 'hold': 0.1}],
         'T2': [{'form': 'acquire', 'o': 2, 'blocking': False, 'timeout': -2, 'hold': 0, 'delay': 0.01},
                {'form': 'acquire', 'o': 2, 'blocking': False, 'timeout': -2, 'hold': 0, 'delay': 0.1}],
         'T3': [{'form': 'acquire', 'o': 3, 'blocking': True, 'timeout': -1, 'hold': 0.3, 'delay': 0.05}]},
        # a failed attempt on a shared object while the lock changes hands to another thread using the same object
        {'T1': [{'form': 'acquire', 'o': 2, 'blocking': True, 'timeout': -1, 'hold': 0.1}],
         'T2': [{'form': 'acquire', 'o': 1, 'blocking': False, 'timeout': -2, 'hold': 0.05, 'delay': 0.01},
                {'form': 'acquire', 'o': 1, 'blocking': True, 'timeout': 0, 'hold': 0.05, 'delay': 0.02}],
         'T3': [{'form': 'acquire', 'o': 1, 'blocking': True, 'timeout': -1, 'hold': 0.3, 'delay': 0.05}]},
        {'T1': [{'form': 'with', 'o': 1, 'hold': 0.1}, {'form': 'acquire', 'o': 1, 'blocking': True, 'timeout': 100, 'hold': 0.05, 'delay': 0.2}],
         'T2': [{'form': 'acquire', 'o': 1, 'blocking': True, 'timeout': 50, 'hold': 0.1, 'delay': 0.02},
                {'form': 'ctx', 'o': 2, 'blocking': True, 'timeout': -1, 'hold': 0.1, 'delay': 0.05}]},
    ]
    for bi, threads in enumerate(bases):
        for thr in sorted(threads):
            for k in range(1, 61 if ctx.tier == 'quick' else 141):
                sweep.append({'mode': 'conc', 'cfg': {'reentrant': [False, False, False], 'deftimeout': [-1, -1, -1], 'poll': 50},
                              'threads': threads, 'trace': True, 'stalls': {thr: [k, 0.25]},
                              'strategy': {'kind': 'replay', 'prefix': []}})
    ctx.run_and_validate(DRIVER, COMP, TRACE, sweep, 'stall_sweep', nontrivial=nontrivial_conc, known_match=known_match)
    # a failed contender on a second object while the lock changes hands on the first one (whatever the failed
    # attempt does with its descriptor must not touch the descriptor of the new holder)
    small.append(('dfs_failed_contender_handover',
                  {'mode': 'conc', 'cfg': {'reentrant': [False, False], 'deftimeout': [-1, -1], 'poll': 50},
                   'threads': {'T1': [{'form': 'acquire', 'o': 1, 'blocking': True, 'timeout': -1, 'hold': 0.1}],
                               'T2': [{'form': 'acquire', 'o': 2, 'blocking': False, 'timeout': -2, 'hold': 0, 'delay': 0.01},
                                      {'form': 'acquire', 'o': 2, 'blocking': False, 'timeout': -2, 'hold': 0, 'delay': 0.1}],
                               'T3': [{'form': 'acquire', 'o': 1, 'blocking': True, 'timeout': -1, 'hold': 0.3, 'delay': 0.05}]},
                   'trace': True}, 2))
    for fam, sc, bound in small:
        ctx.explore_dfs(DRIVER, COMP, TRACE, sc, fam, bound=bound, budget=3000 if ctx.tier == 'quick' else 80000,
                        seed=ctx.seed, nontrivial=nontrivial_conc, known_match=known_match)
    # free-running OS processes on one lock file
    procs = 6 if ctx.tier == 'quick' else 16
    rounds = 150 if ctx.tier == 'quick' else 600
    tr = run_processes(procs, rounds, ctx.seed)
    verdicts, st = tlc.validate_batch(COMP, TRACE, [tr])
    ctx.cov['traces_validated_against_impl'] += 1
    ctx.cov['evaluations'] += 1
    ctx.cov['families']['processes'] = {'processes': procs, 'rounds_each': rounds, 'events': len(tr),
                                        'sections': sum(1 for e in tr if e['e'] == 'Enter')}
    hit = verdicts[0].get('C02')
    if hit is not None:
        ctx.violation('C02', hit[0], hit[1], {'mode': 'processes', 'procs': procs, 'rounds': rounds},
                      {'events': tr, 'decisions': []}, 'processes', 'harness.drivers.flock_procs', known_match)
    return ctx.finish(
        rule='threads: 2..4 controlled threads x 1..2 FileLock objects on one path x 1..3 rounds through '
             'acquire()/acquire_ctx()/with, blocking / non-blocking / timed / default, reentrant nesting, '
             'executed under seeded random/PCT line-level (15%: opcode-level) schedules on real descriptors with '
             'the real flock(2); plus free-running OS processes appending Enter/Exit to one O_APPEND log '
             'inside the section; every trace validated by TLC against LockContract (C02_Exclusive, '
             'C02_HolderIsAcquirer); non-trivial = at least two sections were entered')


def run_processes(procs, rounds, seed):
    import tempfile, shutil
    d = tempfile.mkdtemp(prefix='vprocs-')
    try:
        log = os.path.join(d, 'log')
        lockp = os.path.join(d, 'the.lock')
        open(log, 'w').close()
        env = dict(os.environ, PYTHONPATH=os.environ.get('AIUTI_SRC', '/repo'), PYTHONDONTWRITEBYTECODE='1')
        script = os.path.join(os.path.dirname(os.path.dirname(os.path.abspath(__file__))), 'drivers', 'flock_procs.py')
        ps = [subprocess.Popen([sys.executable, script, lockp, log, str(i + 1), str(rounds), str(seed)], env=env)
              for i in range(procs)]
        status = 'ok'
        deadline = time.time() + 240
        for p in ps:
            try:
                p.wait(timeout=max(1.0, deadline - time.time()))
            except subprocess.TimeoutExpired:
                status = 'hang'       # contenders that never finish their rounds: the lock is stuck for them
        for p in ps:
            if p.poll() is None:
                p.kill()
                p.wait()
        # (a contender that died of an exception raised by the code under test simply stops contending: the
        #  sections recorded so far are judged all the same)
        events = [{'n': 0, 't': 0, 'e': 'Config', 'reentrant': [False], 'deftimeout': [-1], 'poll': 50}]
        n = 1
        for line in open(log):
            kind, pid, h = line.split()
            n += 1
            h = int(h)
            if kind == 'A':
                events.append({'n': n, 't': 0, 'e': 'AcqCall', 'h': h, 'thr': 'P' + pid, 'o': int(pid),
                               'form': 'proc', 'blocking': True, 'timeout': -2})
                events.append({'n': n, 't': 0, 'e': 'AcqRet', 'h': h, 'res': 'true'})
            elif kind == 'E':
                events.append({'n': n, 't': 0, 'e': 'Enter', 'h': h})
            elif kind == 'X':
                events.append({'n': n, 't': 0, 'e': 'Exit', 'h': h})
                events.append({'n': n, 't': 0, 'e': 'RelCall', 'h': h})
        events.append({'n': n + 1, 't': 0, 'e': 'End', 'status': status, 'fds': 0})
        return events
    finally:
        shutil.rmtree(d, ignore_errors=True)


def run(ctx):
    if ctx.prop == 'C12':
        return run_c12(ctx)
    if ctx.prop == 'C02':
        return run_c02(ctx)
    if ctx.prop == 'C13':
        from harness.components import crashcomp
        return crashcomp.run(ctx)
    raise ValueError(ctx.prop)


def replay(prop, path):
    from harness.components import crashcomp
    return crashcomp.replay(prop, path)
