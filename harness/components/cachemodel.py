"""Model side of the cache checks: exhaustive TLC runs of specs/cache/Cache.tla (with the
contract monitor composed in), witness configurations (vacuity guards), liveness."""

ALL_ACTIONS = ['Call', 'Probe1', 'AcqLock', 'Probe2', 'ReadMarker', 'Unlock', 'FuncStart', 'FuncDue',
               'FuncResume', 'FuncEnd', 'Store', 'FinAcq', 'FinSet', 'FinDel', 'FinRel', 'MkWait',
               'ProxyStep', 'BridgeWake', 'Wake']

PLAN = {
    # property -> tier -> list of (cfg, kind, expect)
    'C01': {
        'quick': [('MC_3x1_life', 'mc', None), ('W_D1', 'witness', 'Inv_C01'),
                  ('W_second', 'witness', 'NoSecondInvocation'), ('W_cross', 'witness', 'NoCrossLoopWait')],
        'thorough': [('MC_3x1_life', 'mc', None), ('MC_2x2_life', 'mc', None), ('MC_2x1b_all', 'mc', None),
                     ('MC_3x1', 'mc', None), ('W_D1', 'witness', 'Inv_C01'),
                     ('W_second', 'witness', 'NoSecondInvocation'), ('W_cross', 'witness', 'NoCrossLoopWait')],
    },
    'C05': {
        'quick': [('LIVE_3x1', 'mc', None), ('MC_3x1_faults', 'mc', None),
                  ('W_cross', 'witness', 'NoCrossLoopWait')],
        'thorough': [('LIVE_3x1', 'mc', None), ('MC_3x1_faults', 'mc', None), ('MC_3x1_life', 'mc', None),
                     ('MC_2x1b_all', 'mc', None), ('W_cross', 'witness', 'NoCrossLoopWait')],
    },
    'C06': {
        'quick': [('MC_3x1_faults', 'mc', None), ('MC_2x1b_all', 'mc', None),
                  ('W_D2', 'witness', 'Inv_C06'), ('W_D1k', 'witness', 'Inv_C06')],
        'thorough': [('MC_3x1_faults', 'mc', None), ('MC_2x1b_all', 'mc', None), ('MC_3x1_life', 'mc', None),
                     ('MC_2x2_life', 'mc', None), ('MC_3x1', 'mc', None),
                     ('W_D2', 'witness', 'Inv_C06'), ('W_D1k', 'witness', 'Inv_C06')],
    },
}


def model_check(ctx):
    for cfg, kind, expect in PLAN[ctx.prop][ctx.tier]:
        if kind == 'witness':
            ctx.mc('cache', 'MC_Cache', cfg + '.cfg', expect_violation=expect, timeout=600)
        else:
            ctx.mc('cache', 'MC_Cache', cfg + '.cfg', timeout=2400, require_actions=ALL_ACTIONS)


def replay_behaviours(ctx):
    pass
