"""Model side of the cache checks: exhaustive TLC runs of specs/cache/Cache.tla (with the
contract monitor composed in), witness configurations (vacuity guards), liveness."""

ALL_ACTIONS = ['Call', 'Probe1', 'AcqLock', 'Probe2', 'ReadMarker', 'Unlock', 'FuncStart', 'FuncDue',
               'FuncResume', 'FuncEnd', 'Store', 'FinAcq', 'FinSet', 'FinDel', 'FinRel', 'MkWait',
               'ProxyStep', 'BridgeWake', 'Wake']

PLAN = {
    # property -> tier -> list of (cfg, kind, expect)
    'C01': {
        'quick': [('MC_3x1_life', 'mc', None), ('W_D1', 'witness', 'Inv_C01'),
                  ('W_second', 'witness', 'NoSecondInvocation'), ('W_cross', 'witness', 'NoCrossLoopWait')],
        'thorough': [('MC_3x1_life', 'mc', None), ('MC_2x2_life', 'mc', None), ('MC_2x1b_all', 'mc', None),
                     ('MC_3x1', 'mc', None), ('W_D1', 'witness', 'Inv_C01'),
                     ('W_second', 'witness', 'NoSecondInvocation'), ('W_cross', 'witness', 'NoCrossLoopWait')],
    },
    'C05': {
        'quick': [('LIVE_3x1', 'mc', None), ('MC_3x1_faults', 'mc', None),
                  ('W_cross', 'witness', 'NoCrossLoopWait')],
        'thorough': [('LIVE_3x1', 'mc', None), ('MC_3x1_faults', 'mc', None), ('MC_3x1_life', 'mc', None),
                     ('MC_2x1b_all', 'mc', None), ('MC_2x1b_resume', 'mc', None), ('W_cross', 'witness', 'NoCrossLoopWait')],
    },
    'C06': {
        'quick': [('MC_3x1_faults', 'mc', None), ('MC_2x1b_all', 'mc', None), ('MC_3x1_evict', 'mc', None),
                  ('W_D2', 'witness', 'Inv_C06'), ('W_D1k', 'witness', 'Inv_C06')],
        'thorough': [('MC_3x1_faults', 'mc', None), ('MC_2x1b_all', 'mc', None), ('MC_3x1_life', 'mc', None),
                     ('MC_2x2_life', 'mc', None), ('MC_3x1', 'mc', None), ('MC_3x1_evict', 'mc', None),
                     ('MC_2x1b_resume', 'mc', None),
                     ('W_D2', 'witness', 'Inv_C06'), ('W_D1k', 'witness', 'Inv_C06')],
    },
}


def model_check(ctx):
    for cfg, kind, expect in PLAN[ctx.prop][ctx.tier]:
        if kind == 'witness':
            ctx.mc('cache', 'MC_Cache', cfg + '.cfg', expect_violation=expect, timeout=600)
        else:
            ctx.mc('cache', 'MC_Cache', cfg + '.cfg', timeout=2400,
                   require_actions=ALL_ACTIONS + (['Evict'] if 'evict' in cfg else [])
                   + (['LoopResume'] if 'resume' in cfg else []))


def replay_behaviours(ctx):
    pass


# ---------------------------------------------------------------------------------------------
# implementation conformance (code -> spec): recorded executions against Cache.tla
import json as _json
import os as _os
import re as _re
import tempfile as _tempfile
import shutil as _shutil


def _prep(sc, r):
    """Observable events with projections, in the alphabet of Cache.tla; None if out of the model's scope."""
    loops = [ls['name'] for ls in sc['loops']]
    if any(ls.get('life') == 'early_resume' for ls in sc['loops']):
        return None          # (Cache.tla does not model a stopped loop being run again)
    callers = {}
    for ls in sc['loops']:
        for cs in ls['callers']:
            if cs.get('tmo') is not None or cs['k'] != 'a':
                return None
            callers[cs['c']] = ls['name']
    if len(loops) > 3 or len(callers) > 4 or sc.get('mapping') == 'tiny':
        return None
    ev = []
    seen_running = set()
    for e in r['events']:
        k = e['e']
        if k in ('Tick', 'LoopShutdown', 'End', 'Hang', 'ThreadCrash'):
            continue
        if k == 'LoopRunning' and e['loop'] not in seen_running:
            seen_running.add(e['loop'])      # the model starts with every loop running
            continue
        if 'st' not in e:
            return None
        d = {x: y for x, y in e.items() if x != 'n'}
        ev.append(d)
    if any(c not in range(1, len(callers) + 1) for c in callers):
        return None
    return {'loops': loops, 'callers': callers, 'events': ev}


def conformance(ctx, executed, limit=120):
    """executed: list of (scenario, result, verdict).  Validates up to `limit` small traces against
    Cache.tla (CacheConform.tla); records accepted / drift counts in the evidence."""
    from harness import tlc
    groups = {}
    for sc, r, v in executed:
        if r.get('status') != 'ok' or any(x is not None for x in v.values()):
            continue
        p = _prep(sc, r)
        if p is None or len(p['events']) > 70:
            continue
        key = (tuple(p['loops']), tuple(sorted(p['callers'].items())))
        groups.setdefault(key, []).append(p)
    total = acc = undecided = 0
    drift = []
    for key, items in sorted(groups.items(), key=lambda kv: -len(kv[1])):
        if total >= limit:
            break
        items.sort(key=lambda p: len(p['events']))
        items = items[:max(1, min(len(items), limit - total, 25))]
        loops, callers = key
        loopset = '{' + ', '.join('"%s"' % x for x in loops) + '}'
        loopof = ' @@ '.join('(%d :> "%s")' % (c, lp) for c, lp in callers) or '<<>>'
        mod = ('---- MODULE MC_CacheConform ----\nEXTENDS CacheConform\nCLoops == %s\nCCallers == 1..%d\nCLoopOf == %s\n====\n'
               % (loopset, len(callers), loopof))
        cfg = ('INIT CInit\nNEXT CNext\nCONSTANTS\n Loops <- CLoops\n Callers <- CCallers\n LoopOf <- CLoopOf\n MaxInv = 9\n MaxRetry = 9\n'
               ' OwnMarkerOnly = TRUE\n ForeignCancelRetry = TRUE\n LifeCycles = TRUE\n Cancels = TRUE\n Failures = TRUE\n Timeouts = TRUE\n Resumes = FALSE\n Evictions = FALSE\n'
               'CONSTRAINT Reached\nCONSTRAINT NotYetAccepted\nCHECK_DEADLOCK FALSE\n')
        work = tlc.scratch('conf-')
        try:
            tf = _os.path.join(work, 'traces.json')
            with open(tf, 'w') as f:
                _json.dump([p['events'] for p in items], f)
            out, dt, rc = tlc.run_tlc('cache', 'MC_CacheConform', 'MC_CacheConform.cfg', workers=1, timeout=int(_os.environ.get('CONF_TIMEOUT', '120')),
                                      env={'TRACE_FILE': tf}, cfg_text=cfg,
                                      extra_files={'MC_CacheConform.tla': mod},
                                      jvm=['-Dtlc2.tool.queue.IStateQueue=StateDeque'])
        finally:
            _shutil.rmtree(work, ignore_errors=True)
        r = tlc.parse_mc(out)
        if r['error'] and r['error'] != 'timeout':
            ctx.notes.append('conformance: TLC error on group %r: %s' % (key, r['error'][:200]))
            continue
        reached = {}
        for m in _re.finditer(r'<< ?"REACHED", (\d+), (\d+), (\d+) ?>>', _re.sub(r'\s+', ' ', out)):
            t_, l_, n_ = int(m.group(1)), int(m.group(2)), int(m.group(3))
            reached[t_] = max(reached.get(t_, 0), l_)
        for i, p in enumerate(items, 1):
            total += 1
            if reached.get(i, 1) >= len(p['events']) + 1:
                acc += 1
            elif r['error'] == 'timeout':
                undecided += 1      # the search for this group was cut off: neither accepted nor rejected
            else:
                pos = reached.get(i, 1)
                drift.append({'matched_prefix': pos - 1, 'of': len(p['events']),
                              'first_unexplained': p['events'][pos - 1] if pos - 1 < len(p['events']) else None})
        ctx.cov['states'] += r['distinct']
        ctx.cov['transitions'] += r['generated']
    ctx.cov['conformance'] = {'traces_checked': total, 'accepted': acc, 'drift': len(drift), 'undecided_timeout': undecided,
                              'drift_samples': drift[:3],
                              'what': 'recorded executions validated against Cache.tla with silent internal steps; projected state '
                                      '(cache, marker loop, lock held) compared at every observable event'}
    ctx.cov['conformance_divergences'] = len(drift)
    return total, acc, drift
