"""C14: cache keys and caller-supplied mapping."""
import json
import random
from harness.components.purecomp import tlc_cases, DRIVER, COMP, known_match
from harness import core


def run(ctx):
    rng = random.Random(ctx.seed + 14)
    # the design: the implementation-shaped cache model with a mapping that may drop the entry at any moment
    # (Evict): callers still see only their own outcomes and an eviction never leads to two computations at once
    ctx.mc('cache', 'MC_Cache', 'MC_3x1_evict.cfg', timeout=1800, require_actions=['Evict', 'Store', 'FuncStart'])
    raw = tlc_cases(ctx, 'KeysGen', 'KeysGen_q.cfg' if ctx.tier == 'quick' else 'KeysGen_t.cfg', 'CASE', workers=1,
                    timeout=1800)
    seen = set()
    scs = []
    for c in raw:
        k = json.dumps(c)
        if k in seen:
            continue
        seen.add(k)
        _, mode, s1, s2, ops, lru = c
        i = len(scs)
        sc = {'kind': 'keys', 'mode': mode, 's1': s1, 's2': s2, 'ops': ops, 'lru': lru,
              'form': 'options' if i % 2 else 'direct'}
        if mode == 'pair':
            sc['concurrent'] = i % 3 == 0
            sc['dur'] = 1.0 if sc['concurrent'] else 0
        sc['conc'] = 2 if i % 4 == 1 else 1          # values whose hashes collide
        sc['retnone'] = i % 5 == 2                    # the function legitimately returns None
        if mode == 'ops' and not lru:                 # entries of the caller's mapping expire at moments of its choosing
            sc['expire'] = ('never', 'contains', 'getitem', 'setitem')[i % 4]
        scs.append(sc)
    if ctx.tier == 'thorough' and len(scs) > 150000:
        keep = [sc for sc in scs if sc['mode'] == 'ops']
        pairs = [sc for sc in scs if sc['mode'] == 'pair']
        rng.shuffle(pairs)
        scs = keep + pairs[:150000]
        ctx.notes.append('thorough: pair space sampled to 150000 of %d' % len(pairs))
    if len(scs) < 3000:
        raise core.MachineryError('KeysGen produced only %d cases' % len(scs))
    # longer signatures (3 positional, 3 keywords in every insertion order), random
    extra = []
    names = ['a', 'b', 'c']
    for _ in range(2000 if ctx.tier == 'quick' else 40000):
        def sig():
            nk = rng.randint(0, 3)
            ns = rng.sample(names, nk)
            return {'args': [rng.choice('uv') for _ in range(rng.randint(0, 3))],
                    'kw': [[n, rng.choice('uv')] for n in ns]}
        s1 = sig()
        if rng.random() < 0.5:
            s2 = {'args': list(s1['args']), 'kw': list(s1['kw'])}
            rng.shuffle(s2['kw'])
            if rng.random() < 0.4 and s2['kw']:
                s2['kw'][0] = [s2['kw'][0][0], rng.choice('uv')]
        else:
            s2 = sig()
        conc = rng.random() < 0.4
        extra.append({'kind': 'keys', 'mode': 'pair', 's1': s1, 's2': s2, 'ops': [], 'lru': 0,
                      'concurrent': conc, 'dur': 1.0 if conc else 0, 'conc': rng.choice([1, 2]),
                      'retnone': rng.random() < 0.2})
    # two different functions decorated in the same process and called with equal arguments: each has its own cache
    # (with the default dict cache, with cache=None, and through one configured decorator object)
    two = []
    for i in range(90):
        sig = {'args': [rng.choice('uv') for _ in range(rng.randint(0, 2))],
               'kw': [[n, rng.choice('uv')] for n in rng.sample(['a', 'b'], rng.randint(0, 2))]}
        two.append({'kind': 'keys', 'mode': 'twofuncs', 's1': sig, 's2': {'args': [], 'kw': []}, 'ops': [], 'lru': 0,
                    'form': ('options', 'bare', 'direct')[i % 3], 'variant': 'none' if i % 2 else 'empty'})
    for fam, part in (('tlc_enumerated', scs), ('random_longer', extra), ('two_functions', two)):
        for off in range(0, len(part), 8000):
            ctx.run_and_validate(DRIVER, COMP, 'KeysTrace', part[off:off + 8000], fam,
                                 nontrivial=lambda sc, r: True, known_match=known_match)
    # entries of the caller's mapping that expire between two operations of the wrapper while several loops
    # contend for the key: every call still ends with the value computed for its key (judged by the cache
    # contract's own-outcome clause: an exception that no invocation of this call raised is not such a value)
    from harness.components import cachecomp
    scs = cachecomp.fam_contention(rng, 500 if ctx.tier == 'quick' else 8000)
    for sc in scs:
        sc['mapping'] = 'expc'
    out = ctx.run_and_validate(cachecomp.DRIVER, cachecomp.COMP, cachecomp.TRACE, scs, 'expiring_race', props=[],
                               nontrivial=lambda sc, r: True)
    for sc, r, v in out:
        # own-outcome clause -> "the value returned is always the one computed for that key";
        # single-flight / once-done clause -> "two calls with equal arguments share one cache entry"
        for slot, clause in (('C06', 'C14_ValueOfKey'), ('C01', 'C14_Shares')):
            hit = v.get(slot)
            if hit is not None:
                ctx.cov['families']['expiring_race']['violating'] += 1
                ctx.violation('C14', clause, hit[1], sc, r, 'expiring_race', cachecomp.DRIVER, known_match,
                              cachecomp.COMP, cachecomp.TRACE, slot=slot)
                break
    return ctx.finish(
        rule='TLC enumerates from KeysGen.tla all pairs of call signatures (positional tuples of length 0..2 over two '
             'equality classes, keyword lists of 0..2 distinct names in every order) and all call/evict sequences of '
             'length 1..4 over 3 keys on a caller-supplied MutableMapping and on bounded LRU(1), LRU(2); longer signatures '
             '(3 positional, 3 keywords) are random; equality classes are concretised as equal-but-distinct objects '
             '(1, 1.0, True; "x", a str subclass); calls run sequentially and concurrently on one loop; TLC validates '
             'C14_Shares, C14_NeverCross, C14_ValueOfKey, C14_OneRecompute')
