"""C19: parse_to_dict."""
import random
from harness.components.purecomp import tlc_cases, DRIVER, COMP, known_match
from harness import core

STRS = ['int', 'int2', 'float', 'qstr', 'qlit', 'tuple', 'list', 'dict', 'none', 'true', 'neg', 'padded', 'trail',
        'bare', 'call', 'attr', 'op', 'litcall', 'litsub', 'empty', 'unhash', 'withsep']
OBJS = ['obj_int', 'obj_tuple', 'obj_none']


def run(ctx):
    rng = random.Random(ctx.seed + 19)
    raw = tlc_cases(ctx, 'ParseGen', 'ParseGen_1.cfg', 'CASE', workers=1)
    scs = []
    import json as _json
    uniq = []
    seen = set()
    for c in raw:
        k = _json.dumps(c)
        if k not in seen:
            seen.add(k)
            uniq.append(c)
    for i, (_, items, shape, pk, parser) in enumerate(uniq):
        for sep in ('=', '=>', '::'):
            if sep != '=' and shape not in ('strings', 'nosep') and i % 7 != 0:
                continue
            if sep == '::' and i % 2:
                continue
            scs.append({'kind': 'parse', 'items': items, 'shape': shape, 'pk': pk, 'parser': parser, 'sep': sep,
                        'pairform': 'lists' if i % 2 else 'tuples'})
    if len(scs) < 3000:
        raise core.MachineryError('ParseGen produced only %d cases' % len(scs))
    extra = []
    for _ in range(3000 if ctx.tier == 'quick' else 80000):
        shape = rng.choice(['mapping', 'pairs', 'strings', 'strings', 'nosep'])
        k = rng.randint(2, 4)
        pool_k = STRS if shape in ('strings', 'nosep') else STRS + OBJS
        items = []
        for _ in range(k):
            items.append([rng.choice(pool_k), rng.choice(pool_k)])
        if shape == 'mapping':
            seen = set()
            items = [it for it in items if not (it[0] in seen or seen.add(it[0]))]
            # raw keys that are equal objects collapse in the mapping itself
            items = [it for it in items if it[0] not in ('obj_tuple',) or True]
        extra.append({'kind': 'parse', 'items': items, 'shape': shape, 'pk': rng.random() < 0.6,
                      'parser': rng.choice(['default', 'default', 'raising']), 'sep': rng.choice(['=', '=', '=>', '::', ':=']),
                      'pairform': rng.choice(['lists', 'tuples'])})
    # key collisions: several items whose keys are equal after parsing (1, True, ' 1', '1 ' / None) or textually, in every
    # order, with distinct values: the later item wins, pair by pair in item order
    coll = []
    classes = [['int', 'true', 'padded', 'trail'], ['none'], ['int2'], ['qstr', 'bare']]
    vals = ['int2', 'float', 'qstr', 'tuple', 'bare', 'neg', 'list']
    for _ in range(800 if ctx.tier == 'quick' else 20000):
        cls = rng.choice(classes[:1] * 3 + classes)
        k = rng.randint(2, 4)
        other = rng.choice(['float', 'neg', 'bare'])
        keys = [rng.choice(cls) if rng.random() < 0.8 else other for _ in range(k)]
        vs = rng.sample(vals, k)
        shape = rng.choice(['pairs', 'strings', 'strings'])
        coll.append({'kind': 'parse', 'items': [[a, b] for a, b in zip(keys, vs)], 'shape': shape, 'pk': rng.random() < 0.8,
                     'parser': 'default', 'sep': rng.choice(['=', '=', '::']), 'pairform': rng.choice(['lists', 'tuples'])})
    for fam, part in (('tlc_enumerated', scs), ('random_longer', extra), ('key_collisions', coll)):
        for off in range(0, len(part), 8000):
            ctx.run_and_validate(DRIVER, COMP, 'ParseTrace', part[off:off + 8000], fam,
                                 nontrivial=lambda sc, r: len(sc['items']) >= 1, known_match=known_match)
    return ctx.finish(
        rule='TLC enumerates from ParseGen.tla every item list of length 0..1 over 22 string fragment classes (13 literal, 9 '
             'non-literal incl. calls / attribute access / operators / text containing the separator / whitespace / empty / '
             'unhashable display) and 3 non-string objects, as mapping / pairs / joined strings / string without separator, '
             'parse_keys on/off, default and raising parser, separators of length 1..2; item lists of length 2..4 are random; '
             'each result is abstracted back to fragment classes through a hand-written table and validated by TLC against '
             'ParseContract.tla; a trip-wire object named in the call/attribute fragments counts evaluations; '
             'non-trivial = non-empty item list')
