"""C15: decorator-with-options forms configure exactly like the direct forms; a function decorated
with async_background_batcher gives every event loop its own independent batching."""
import copy
import itertools
import json
import random

from harness import tlc, core, pool
from harness.components import batchercomp, buffercomp

DEFAULTS = {'max_batch_size': 256, 'max_concurrent_batches': 5, 'batch_timeout': 0.05, 'retention_timeout': 0.0}


def strip(tr):
    """Events without sequence numbers (what must be equal across forms)."""
    out = []
    for e in tr:
        d = {k: v for k, v in e.items() if k not in ('n', 'st')}
        out.append(d)
    return out


def run_group(ctx, driver, comp, trace, scs, family, remap):
    """Execute scenarios; validate each trace with its component contract; violations of any property of
    that contract are C15_OptionEffective violations (the contract is instantiated with the option
    values *given*)."""
    results = [None] * len(scs)
    for i, sc, r in pool.run_many(driver, scs, wall_timeout=12.0):
        results[i] = r
    crashed = []
    for sc, r in zip(scs, results):
        if r.get('status') == 'crash':
            if not core.from_code_under_test(r.get('error', '')):
                raise core.MachineryError('harness crash in %s: %s' % (family, r.get('error')))
            # one of the forms raises where the other forms work: an exception escaped from the code under test
            r.setdefault('events', [])
            crashed.append((sc, r))
    for sc, r in crashed:
        ctx.violation('C15', 'C15_UnexpectedException', 0, sc, r, family, driver, None, comp, trace)
    verdicts, st = tlc.validate_batch(comp, trace, [r['events'] for r in results])
    ctx.cov['states'] += st['states']
    ctx.cov['transitions'] += st['generated']
    ctx.cov['traces_validated_against_impl'] += len(scs)
    ctx.cov['evaluations'] += len(scs)
    fam = ctx.cov['families'].setdefault(family, {'executions': 0, 'violating': 0})
    fam['executions'] += len(scs)
    for sc, r, v in zip(scs, results, verdicts):
        for p, hit in v.items():
            if hit is not None:
                fam['violating'] += 1
                ctx.violation('C15', 'C15_OptionEffective_' + hit[0], hit[1], sc, r, family, driver, None, comp, trace)
                break
    return results


def compare_forms(ctx, pairs, family):
    """pairs: list of (sc_a, res_a, sc_b, res_b)."""
    items = [{'a': strip(ra['events']), 'b': strip(rb['events'])} for _, ra, _, rb in pairs]
    verdicts, st = tlc.validate_batch('forms', 'FormsTrace', items)
    ctx.cov['states'] += st['states']
    ctx.cov['transitions'] += st['generated']
    fam = ctx.cov['families'].setdefault(family, {'executions': 0, 'violating': 0})
    fam['pairs_compared'] = fam.get('pairs_compared', 0) + len(pairs)
    for (sa, ra, sb, rb), v in zip(pairs, verdicts):
        hit = v.get('C15')
        if hit is not None:
            fam['violating'] += 1
            ctx.violation('C15', hit[0], hit[1], {'a': sa, 'b': sb}, {'events': [{'a': ra['events'], 'b': rb['events']}], 'decisions': []},
                          family, 'harness.components.c15comp', None, 'forms', 'FormsTrace')


def option_sets(rng):
    nd = {'max_batch_size': [1, 2, 3], 'max_concurrent_batches': [1, 2], 'batch_timeout': [4.0, 2.0],
          'retention_timeout': [6.0, 2.0]}
    sets = []
    for k, vs in nd.items():          # one at a time
        for v in vs:
            sets.append({k: v})
    for _ in range(6):                # jointly
        sets.append({k: rng.choice(vs) for k, vs in nd.items()})
    return sets


def batcher_cases(rng, n):
    out = []
    base = batchercomp.gen(rng, n, 6, behaviours=False, keys=3, durations=True) + batchercomp.trickle_burst(rng, n // 3)
    base += [dict(sc, form='class') for sc in batchercomp.failed_then_retry()[::3]]
    osets = option_sets(rng)
    for i, sc in enumerate(base):
        opts = osets[i % len(osets)] if i < n else dict(sc['opts'])
        eff = dict(DEFAULTS)
        eff.update(opts)
        sc = dict(sc)
        sc['opts'] = dict(opts)
        sc.pop('setmax', None)
        if rng.random() < 0.35:     # the batch function fails one request by yielding an exception (of any family) for it
            sc['behav'] = {str(rng.randint(1, 3)): 'excval'}
        sc['end'] = batchercomp.end_time(sc['calls'], eff, sc) + 5
        trio = []
        for form in ('deco_options', 'deco_direct', 'class'):
            s2 = copy.deepcopy(sc)
            s2['form'] = form
            trio.append(s2)
        out.append(trio)
    return out


def buffer_cases(rng, n):
    out = []
    base = buffercomp.fam_programs(rng, n, 4, 1)
    for i, sc in enumerate(base):
        trio = []
        forms = ('options', 'direct', 'class') if i % 4 else ('default', 'default_bare', 'default')
        for form in forms:
            s2 = copy.deepcopy(sc)
            s2['form'] = form
            if form.startswith('default'):
                s2['timeout'] = 1.0
            trio.append(s2)
        out.append(trio)
    return out


def multiloop_cases(rng, n):
    """One decorated batcher used from 1..3 loops successively and 2..3 at once."""
    out = []
    for _ in range(n):
        nl = rng.choice([1, 2, 2, 3, 3])
        concurrent = nl >= 2 and rng.random() < 0.6
        opts = {'max_batch_size': rng.choice([1, 2, 3]), 'max_concurrent_batches': rng.choice([1, 2]),
                'batch_timeout': 4.0, 'retention_timeout': rng.choice([0.0, 0.0, 6.0])}
        loops = []
        calls = []
        i = 0
        t0 = 0.0
        for li in range(nl):
            name = 'L%d' % (li + 1)
            t = 0.0
            mine = []
            for _ in range(rng.randint(1, 4)):
                t += rng.choice([0.0, 0.0, 1.0, 3.0, 5.0])
                i += 1
                mine.append({'i': i, 'at': t, 'arg': rng.randint(1, 2), 'loop': name})
            calls += mine
            sc_tmp = {'batch_dur': 1.0}
            end = batchercomp.end_time(mine, opts, sc_tmp)
            loops.append({'name': name, 'start': 0.0 if concurrent else t0, 'end': end})
            t0 += end + 1.0
        out.append({'form': rng.choice(['deco_direct', 'deco_options']), 'opts': opts, 'calls': calls,
                    'batch_dur': 1.0, 'loops': loops,
                    'strategy': {'kind': 'random', 'seed': rng.randrange(1 << 30), 'stick': 0.5}})
    return out


def paused_loop_cases():
    """One decorated batcher, two loops alive at the same time: the first loop's thread leaves it for a while (it is
    not running, nothing is pending on it), the second loop makes its first call in that window, then the first loop
    asks again for a key it still retains: served from its own retention cache, no new work on that loop."""
    out = []
    for form, R, gap, arg2 in itertools.product(['deco_direct', 'deco_options'], [20.0, 40.0], [1.0, 3.0], [1, 2]):
        bt = 4.0
        opts = {'max_batch_size': 2, 'max_concurrent_batches': 1, 'batch_timeout': bt, 'retention_timeout': R}
        p0, p1 = bt + 2.0, bt + 2.0 + 2 * gap + 1.0
        calls = [{'i': 1, 'at': 0.0, 'arg': 1, 'loop': 'L1'},
                 {'i': 2, 'at': p0 + gap - (bt + 1.0), 'arg': arg2, 'loop': 'L2'},     # relative to L2's start
                 {'i': 3, 'at': p1 + 1.0, 'arg': 1, 'loop': 'L1'}]
        loops = [{'name': 'L1', 'start': 0.0, 'end': p1 + 3 * bt + 5.0, 'pause': [p0, p1]},
                 {'name': 'L2', 'start': bt + 1.0, 'end': 3 * bt + 8.0}]
        out.append({'form': form, 'opts': opts, 'calls': calls, 'batch_dur': 1.0, 'loops': loops,
                    'strategy': {'kind': 'replay', 'prefix': []}})
    return out


def project_loops(sc, r):
    """Split a multi-loop trace into one trace per loop."""
    ev = r['events']
    cfg = ev[0]
    loop_of_call = {}
    loop_of_batch = {}
    per = {}
    for e in ev[1:]:
        lp = e.get('loop')
        if e['e'] == 'Call':
            loop_of_call[e['i']] = lp
        elif e['e'] == 'BatchStart':
            loop_of_batch[e['b']] = lp
        elif e['e'] in ('CallEnd', 'Cancel'):
            lp = loop_of_call.get(e['i'])
        elif e['e'] in ('Yield', 'BatchEnd'):
            lp = loop_of_batch.get(e['b'])
        if lp is None:
            continue
        per.setdefault(lp, [cfg]).append(e)
    end = ev[-1]
    return {lp: tr + [end] for lp, tr in per.items()}


def run(ctx):
    rng = random.Random(ctx.seed * 29 + 15)
    q = ctx.tier == 'quick'
    # 1. batcher option sets, three forms
    trios = batcher_cases(rng, 400 if q else 6000)
    flat = [s for t in trios for s in t]
    res = run_group(ctx, 'harness.drivers.batcher', 'batcher', 'BatcherTrace', flat, 'batcher_forms', None)
    pairs = []
    for k, t in enumerate(trios):
        ra, rb, rc = res[3 * k], res[3 * k + 1], res[3 * k + 2]
        pairs.append((t[0], ra, t[1], rb))
        pairs.append((t[1], rb, t[2], rc))
    compare_forms(ctx, pairs, 'batcher_forms')
    # 2. buffer timeout option / default, three forms
    trios = buffer_cases(rng, 300 if q else 5000)
    flat = [s for t in trios for s in t]
    res = run_group(ctx, 'harness.drivers.buffer', 'buffer', 'BufferTrace', flat, 'buffer_forms', None)
    pairs = []
    for k, t in enumerate(trios):
        pairs.append((t[0], res[3 * k], t[1], res[3 * k + 1]))
        pairs.append((t[1], res[3 * k + 1], t[2], res[3 * k + 2]))
    compare_forms(ctx, pairs, 'buffer_forms')
    # 3. cache mapping option, two forms (call / evict sequences on the mapping given)
    ops_cases = []
    keys = ['p', 'q', 'r']
    for _ in range(300 if q else 4000):
        lru = rng.choice([0, 0, 1, 2])
        ops = [['call', rng.choice(keys)]]
        for _ in range(rng.randint(1, 5)):
            ops.append([rng.choice(['call', 'call', 'evict']) if lru == 0 else 'call', rng.choice(keys)])
        pair = []
        for form in ('options', 'direct'):
            pair.append({'kind': 'keys', 'mode': 'ops', 's1': {'args': [], 'kw': []}, 's2': {'args': [], 'kw': []},
                         'ops': ops, 'lru': lru, 'form': form})
        ops_cases.append(pair)
    # one configured decorator object applied to two functions: each keeps its own default cache
    for i in range(60):
        sig = {'args': [rng.choice('uv') for _ in range(rng.randint(0, 2))],
               'kw': [[n, rng.choice('uv')] for n in rng.sample(['a', 'b'], rng.randint(0, 2))]}
        pair = []
        for form in ('options', 'direct'):
            pair.append({'kind': 'keys', 'mode': 'twofuncs', 's1': sig, 's2': {'args': [], 'kw': []}, 'ops': [], 'lru': 0,
                         'form': form if i % 3 else ('options' if form == 'options' else 'bare'),
                         'variant': 'none' if i % 2 else 'empty'})
        ops_cases.append(pair)
    flat = [s for t in ops_cases for s in t]
    res = run_group(ctx, 'harness.drivers.pure', 'pure', 'KeysTrace', flat, 'cache_forms', None)
    compare_forms(ctx, [(t[0], res[2 * k], t[1], res[2 * k + 1]) for k, t in enumerate(ops_cases)], 'cache_forms')
    # 4. one decorated batcher, several loops: each loop's projection satisfies the contract on its own
    ml = multiloop_cases(rng, 300 if q else 5000) + paused_loop_cases()
    results = [None] * len(ml)
    for i, sc, r in pool.run_many('harness.drivers.batcher', ml, wall_timeout=12.0):
        results[i] = r
    traces = []
    owners = []
    for sc, r in zip(ml, results):
        if r.get('status') == 'crash':
            if core.from_code_under_test(r.get('error', '')):
                r.setdefault('events', [])
                ctx.violation('C15', 'C15_UnexpectedException', 0, sc, r, 'multi_loop', 'harness.drivers.batcher', None,
                              'batcher', 'BatcherTrace')
                continue
            raise core.MachineryError('harness crash in multiloop: %s' % r.get('error'))
        for lp, tr in sorted(project_loops(sc, r).items()):
            traces.append(tr)
            owners.append((sc, r, lp))
    verdicts, st = tlc.validate_batch('batcher', 'BatcherTrace', traces)
    ctx.cov['states'] += st['states']
    ctx.cov['transitions'] += st['generated']
    ctx.cov['traces_validated_against_impl'] += len(traces)
    ctx.cov['evaluations'] += len(ml)
    fam = ctx.cov['families'].setdefault('multi_loop', {'executions': len(ml), 'loop_projections': len(traces), 'violating': 0})
    for (sc, r, lp), v in zip(owners, verdicts):
        for p, hit in v.items():
            if hit is not None:
                fam['violating'] += 1
                ctx.violation('C15', 'C15_PerLoopIndependent_' + hit[0], hit[1], sc, r, 'multi_loop',
                              'harness.components.c15comp', None, 'batcher', 'BatcherTrace')
                break
    ctx.cov['distinct_nontrivial'] = ctx.cov['evaluations']
    ctx.cov['samples'].append({'family': 'batcher_forms', 'scenario': flat[0] if False else ml[0]})
    return ctx.finish(
        rule='the same timed program is run on @deco(opt=...) / deco(func, opt=...) / the class for every option set to a '
             'non-default value one at a time and jointly (batcher: max_batch_size, max_concurrent_batches, batch_timeout, '
             'retention_timeout; buffer: timeout and the default; cache: the mapping given); each trace must satisfy the '
             'component contract instantiated with the values given (C15_OptionEffective) and the traces of the forms must be '
             'equal event for event (C15_FormsEquivalent, checked by TLC in FormsTrace.tla); one decorated batcher is used from '
             '1..3 loops successively and 2..3 concurrently and every per-loop projection must satisfy BatcherContract on its own')


def replay(prop, path):
    """Re-execute a recorded C15 violation on the current tree and re-validate it with TLC."""
    rep = json.load(open(path))
    sc = rep['scenario']
    fam = rep.get('family')
    drivers = {'batcher_forms': ('harness.drivers.batcher', 'batcher', 'BatcherTrace'),
               'buffer_forms': ('harness.drivers.buffer', 'buffer', 'BufferTrace'),
               'cache_forms': ('harness.drivers.pure', 'pure', 'KeysTrace'),
               'multi_loop': ('harness.drivers.batcher', 'batcher', 'BatcherTrace')}
    drv, comp, trace = drivers[fam]
    hit = None
    if 'a' in sc and 'b' in sc and rep['clause'] == 'C15_FormsEquivalent':
        ra = pool.run_one(drv, sc['a'])
        rb = pool.run_one(drv, sc['b'])
        v, _ = tlc.validate_batch('forms', 'FormsTrace', [{'a': strip(ra['events']), 'b': strip(rb['events'])}])
        hit = v[0].get('C15')
    else:
        r = pool.run_one(drv, sc)
        if r.get('status') == 'crash' and core.from_code_under_test(r.get('error', '')):
            print('VIOLATION property=C15 replay=%s clause=C15_UnexpectedException' % path)
            return 1
        traces = [r['events']]
        if fam == 'multi_loop':
            traces = [tr for lp, tr in sorted(project_loops(sc, r).items())]
        v, _ = tlc.validate_batch(comp, trace, traces)
        for vv in v:
            for p, h in vv.items():
                if h is not None and hit is None:
                    hit = h
    print('replay verdict:', hit)
    if hit is not None:
        print('VIOLATION property=C15 replay=%s clause=%s' % (path, hit[0]))
        return 1
    return 0
