"""Checks for AsyncBackgroundBatcher: C04 (own outcome, always answered), C09 (cancellation),
C10 (limits, FIFO, timeout), C11 (retention)."""
import random
import itertools

DRIVER = 'harness.drivers.batcher'
COMP = 'batcher'
TRACE = 'BatcherTrace'

BT = 4.0  # batch_timeout in virtual seconds (exact in floating point)


def gaps_for(bt):
    return [0.0, 0.0, 1.0, bt - 1.0, bt, bt + 1.0, 2 * bt]


def end_time(calls, opts, sc):
    last = max([c['at'] for c in calls] + [0.0])
    n = len(calls)
    bd = max([sc.get('batch_dur', 0.0)] + list(sc.get('batch_durs', {}).values()))
    per = opts['batch_timeout'] + bd + sc.get('tail_dur', 0.0) + sc.get('item_dur', 0.0) * max(1, opts['max_batch_size']) + 1.0
    return last + (n + 2) * per + opts.get('retention_timeout', 0.0) + 10.0


def gen(rng, n, ncalls_max, cancels=False, behaviours=True, keys=3, retention=None, setmax=False,
        durations=True, explicit_keys=True):
    out = []
    for _ in range(n):
        bt = BT
        opts = {'max_batch_size': rng.choice([1, 2, 2, 3, 4, 5]),
                'max_concurrent_batches': rng.choice([1, 1, 2, 3]),
                'batch_timeout': bt,
                'retention_timeout': (rng.choice([0.0, 0.0, 2.0, 6.0, 20.0]) if retention is None
                                      else rng.choice(retention))}
        nk = rng.randint(1, keys)
        ncalls = rng.randint(1, ncalls_max)
        calls = []
        t = 0.0
        rgaps = gaps_for(bt) + ([opts['retention_timeout'], opts['retention_timeout'] + 1.0,
                                 max(0.0, opts['retention_timeout'] - 1.0)] if opts['retention_timeout'] > 0 else [])
        for i in range(ncalls):
            if i:
                t += rng.choice(rgaps)
            arg = rng.randint(1, nk)
            cs = {'i': i + 1, 'at': t, 'arg': arg}
            if explicit_keys and rng.random() < 0.25:
                # explicit keys; arguments 1 and "1" collide by design under the default str(arg) key
                cs['key'] = rng.choice(['k%d' % arg, str(arg), ''])     # ('' is a key like any other)
            elif rng.random() < 0.1:
                cs['arg'] = str(arg)
            if cancels and rng.random() < 0.35:
                if rng.random() < 0.6:
                    cs['cancel_at'] = t + rng.choice([0.0, 0.5, 1.0, bt - 1.0, bt, bt + 0.5, bt + 1.0, bt + 2.5, 2 * bt])
                else:
                    cs['tmo'] = rng.choice([0.0, 0.5, 1.0, bt, bt + 0.5, bt + 2.5])
            if not cancels and rng.random() < 0.12:
                cs['chain'] = rng.choice([1, 1, 2])     # retry immediately after the answer
            calls.append(cs)
        sc = {'form': rng.choice(['class', 'class', 'deco_direct', 'deco_options']), 'opts': opts, 'calls': calls}
        if durations:
            sc['batch_dur'] = rng.choice([0.0, 0.0, 1.0, 2.0, bt, 3 * bt])
            sc['item_dur'] = rng.choice([0.0, 0.0, 0.0, 1.0])
            sc['tail_dur'] = rng.choice([0.0, 0.0, 1.0, bt])      # time the function spends after its last result
            if rng.random() < 0.2:
                sc['batch_durs'] = {str(rng.randint(1, 3)): rng.choice([0.0, 3 * bt + 1.0])}
        sc['excfam'] = rng.choice(['plain', 'plain', 'key', 'runtime', 'timeout'])
        if rng.random() < 0.2:          # another batcher object served the same keys before (and still retains them)
            sc['warm_other'] = True
        if rng.random() < 0.25:         # garbage collections at arbitrary instants change nothing
            sc['gc_at'] = sorted(rng.choice([0.0, 0.5, 1.0, bt, bt + 0.5, 2 * bt, 2 * bt + 1.0, 3 * bt]) + rng.choice([0.0, 0.25])
                                 for _ in range(rng.randint(1, 3)))
        sc['order'] = rng.choice(['fwd', 'rev', ['shuf', rng.randrange(1000)]])
        if behaviours:
            behav = {}
            for k in range(1, nk + 1):
                b = rng.choice(['value', 'value', 'value', 'excval', 'omit', 'dup', 'unknown'])
                if b != 'value':
                    behav[str(k)] = b
                    if rng.random() < 0.5:
                        behav['k%d' % k] = b
            sc['behav'] = behav
            if rng.random() < 0.2:
                sc['raise_at'] = [rng.randint(1, 3), rng.randint(0, 2)]
        if setmax:
            sc['form'] = 'class'
            if rng.random() < 0.7:
                sc['setmax'] = [{'at': rng.choice([c['at'] for c in calls]) + rng.choice([0.0, 0.5, 1.0]),
                                 'n': rng.choice([1, 2, 2, 3, 5])}]
        sc['end'] = end_time(calls, opts, sc)
        out.append(sc)
    return out


def queue_pressure(rng, n):
    """Many simultaneous calls against a tiny, slow batcher; one of the queued callers is cancelled; later
    the same key is requested again (C09: the batcher keeps serving)."""
    out = []
    for _ in range(n):
        bt = BT
        opts = {'max_batch_size': 1, 'max_concurrent_batches': rng.choice([1, 1, 2]), 'batch_timeout': bt,
                'retention_timeout': rng.choice([0.0, 0.0, 2.0])}
        k = rng.randint(3, 6)
        calls = [{'i': i + 1, 'at': 0.0, 'arg': i + 1} for i in range(k)]
        victim = rng.randint(2, k)
        if rng.random() < 0.6:
            calls[victim - 1]['cancel_iters'] = rng.randint(1, 9)
        else:
            calls[victim - 1]['cancel_at'] = rng.choice([0.5, 1.0, 2.0])
        if rng.random() < 0.4:
            v2 = rng.randint(1, k)
            calls[v2 - 1]['tmo'] = rng.choice([0.5, 1.0, 3.0])
        calls.append({'i': k + 1, 'at': rng.choice([1.0, 3.0, 3 * bt * k]), 'arg': victim})
        calls.append({'i': k + 2, 'at': 3 * bt * k + 5.0, 'arg': victim})
        sc = {'form': 'class', 'opts': opts, 'calls': calls, 'batch_dur': rng.choice([2 * bt, 3 * bt]), 'order': 'fwd'}
        sc['end'] = end_time(calls, opts, sc) + 20
        out.append(sc)
    return out


def bursts(rng, n):
    """A burst of simultaneous calls larger than max_batch_size * max_concurrent_batches, followed by calls
    started a few loop iterations later at the same instant (arrival order must be kept)."""
    out = []
    for _ in range(n):
        bt = BT
        mb, mc = rng.choice([(1, 1), (2, 1), (2, 2), (3, 1)])
        opts = {'max_batch_size': mb, 'max_concurrent_batches': mc, 'batch_timeout': bt, 'retention_timeout': 0.0}
        k = mb * mc + rng.randint(1, 3)
        t0 = rng.choice([0.0, 1.0])
        calls = [{'i': i + 1, 'at': t0, 'arg': i + 1} for i in range(k)]
        for j in range(rng.randint(1, 3)):
            calls.append({'i': k + j + 1, 'at': t0, 'arg': k + j + 1, 'start_iters': rng.randint(1, 4)})
        sc = {'form': 'class', 'opts': opts, 'calls': calls, 'batch_dur': rng.choice([0.0, 1.0, bt + 1.0]), 'order': 'fwd'}
        sc['end'] = end_time(calls, opts, sc)
        out.append(sc)
    return out


def completion_instant(rng, n):
    """Same-key calls landing in the very loop iterations in which an earlier request completes (between the
    future being resolved, its done-callbacks and the callers waking up), followed by another same-key call
    within batch_timeout."""
    out = []
    for _ in range(n):
        bt = BT
        R = rng.choice([0.0, 0.0, 2.0])
        opts = {'max_batch_size': rng.choice([2, 3]), 'max_concurrent_batches': rng.choice([1, 2]), 'batch_timeout': bt,
                'retention_timeout': R}
        bd = rng.choice([0.0, 1.0, 2.0])
        done = bt + bd                     # the first request (alone in its batch) completes here
        calls = [{'i': 1, 'at': 0.0, 'arg': 1}]
        i = 1
        for k in sorted(rng.sample(range(0, 6), rng.randint(1, 3))):
            i += 1
            calls.append({'i': i, 'at': done + (R if rng.random() < 0.3 else 0.0), 'arg': rng.choice([1, 1, 2]), 'start_iters': k})
        for _ in range(rng.randint(1, 2)):
            i += 1
            calls.append({'i': i, 'at': done + rng.choice([0.5, 1.0, bt - 1.0]), 'arg': rng.choice([1, 1, 2])})
        sc = {'form': 'class', 'opts': opts, 'calls': calls, 'batch_dur': bd, 'order': 'fwd'}
        sc['end'] = end_time(calls, opts, sc) + 10
        out.append(sc)
    return out


def trickle_burst(rng, n):
    """One call, then calls trickling in alone within batch_timeout, then a burst: the batch must stop at
    max_batch_size however the items arrived."""
    out = []
    for _ in range(n):
        bt = BT
        mb = rng.choice([2, 3, 4, 5])
        opts = {'max_batch_size': mb, 'max_concurrent_batches': rng.choice([1, 2, 3]), 'batch_timeout': bt,
                'retention_timeout': 0.0}
        calls = [{'i': 1, 'at': 0.0, 'arg': 1}]
        t = 0.0
        i = 1
        for _ in range(rng.randint(1, mb - 1)):
            t += rng.choice([1.0, 2.0, bt - 1.0])
            i += 1
            calls.append({'i': i, 'at': t, 'arg': i})
        t += rng.choice([1.0, bt - 1.0])
        for _ in range(rng.randint(mb - 1, mb + 2)):
            i += 1
            calls.append({'i': i, 'at': t, 'arg': i})
        sc = {'form': rng.choice(['class', 'deco_direct', 'deco_options']), 'opts': opts, 'calls': calls,
              'batch_dur': rng.choice([0.0, 1.0]), 'order': 'fwd'}
        sc['end'] = end_time(calls, opts, sc)
        out.append(sc)
    return out


def c10_grid(tier):
    """Exhaustive arrival grids for distinct keys (sizes, concurrency, durations)."""
    out = []
    bt = BT
    gaps = [0.0, bt - 1.0, bt, bt + 1.0]
    nmax = 4 if tier == 'quick' else 6
    for n in range(1, nmax + 1):
        for combo in itertools.product(gaps, repeat=n - 1):
            times = [0.0]
            for g in combo:
                times.append(times[-1] + g)
            for mb, mc, bd in ((1, 1, 0.0), (2, 1, 0.0), (2, 1, 2 * bt + 1.0), (3, 2, bt + 2.0), (5, 3, 1.0)):
                if n >= 5 and (mb, mc) not in ((2, 1), (3, 2)):
                    continue
                opts = {'max_batch_size': mb, 'max_concurrent_batches': mc, 'batch_timeout': bt,
                        'retention_timeout': 0.0}
                calls = [{'i': i + 1, 'at': t, 'arg': i + 1} for i, t in enumerate(times)]
                sc = {'form': 'class', 'opts': opts, 'calls': calls, 'batch_dur': bd}
                sc['end'] = end_time(calls, opts, sc)
                out.append(sc)
    return out


def c11_grid(tier):
    """Same-key call sequences with gaps around the retention window and batch completion."""
    out = []
    bt = BT
    for R in (0.0, 2.0, 6.0):
        gaps = sorted(set([0.0, 1.0, bt - 1.0, bt + 1.0, bt + R - 1.0, bt + R + 1.0, R + 1.0, 2 * bt + R + 2.0]))
        gaps = [g for g in gaps if g >= 0]
        nmax = 3 if tier == 'quick' else 4
        for n in range(2, nmax + 1):
            for combo in itertools.product(gaps, repeat=n - 1):
                times = [0.0]
                for g in combo:
                    times.append(times[-1] + g)
                for bd, beh in ((0.0, 'value'), (1.0, 'value'), (1.0, 'excval')):
                    opts = {'max_batch_size': 3, 'max_concurrent_batches': 2, 'batch_timeout': bt,
                            'retention_timeout': R}
                    calls = [{'i': i + 1, 'at': t, 'arg': 1} for i, t in enumerate(times)]
                    sc = {'form': 'class' if R != 2.0 else 'deco_options', 'opts': opts, 'calls': calls,
                          'batch_dur': bd, 'behav': {} if beh == 'value' else {'1': beh}}
                    sc['end'] = end_time(calls, opts, sc)
                    out.append(sc)
    return out


def failed_then_retry():
    """The first batch for a key fails as a whole (the batch function raises), the key is retried successfully while
    the failed request's retention window is still open, and is requested again after that window has closed but
    within the window of the successful request: served from what is retained, no new work."""
    out = []
    bt = BT
    for R, d1, d2, form in itertools.product([6.0, 10.0], [0.5, 1.0, 2.0], [0.5, 1.0, 2.5], ['class', 'deco_options', 'deco_direct']):
        opts = {'max_batch_size': 3, 'max_concurrent_batches': 2, 'batch_timeout': bt, 'retention_timeout': R}
        t_fail = bt                      # the batch of the first call starts (and raises) at bt
        t_retry = t_fail + d1            # retried while the failure is still retained?  no: failures are not served
        t_ok = t_retry + bt              # ... its batch runs at t_retry + bt
        calls = [{'i': 1, 'at': 0.0, 'arg': 1}, {'i': 2, 'at': t_retry, 'arg': 1},
                 {'i': 3, 'at': t_fail + R + d2, 'arg': 1}, {'i': 4, 'at': t_ok + R - 0.5, 'arg': 1}]
        calls = [c for c in calls if c['at'] >= 0]
        calls.sort(key=lambda c: c['at'])
        for j, c in enumerate(calls):
            c['i'] = j + 1
        sc = {'form': form, 'opts': opts, 'calls': calls, 'batch_dur': 0.0, 'raise_at': [1, 0], 'excfam': 'plain'}
        sc['end'] = end_time(calls, opts, sc)
        out.append(sc)
    return out


def known_match(k, clause, idx, sc, r):
    return False


def nontrivial(sc, r):
    return sum(1 for e in r['events'] if e['e'] == 'Call') >= 2


def run(ctx):
    rng = random.Random(ctx.seed * 131 + int(ctx.prop[1:]))
    from harness.components import batchermodel
    batchermodel.model_check(ctx)
    q = ctx.tier == 'quick'

    executed = []

    def go(scs, fam):
        for off in range(0, len(scs), 6000):
            out = ctx.run_and_validate(DRIVER, COMP, TRACE, scs[off:off + 6000], fam, nontrivial=nontrivial,
                                       known_match=known_match)
            if len(executed) < 3000:
                executed.extend(out[:1500])

    if ctx.prop == 'C04':
        go(gen(rng, 3000 if q else 50000, 6 if q else 10), 'programs')
        go(completion_instant(rng, 500 if q else 8000), 'completion_instant')
    elif ctx.prop == 'C09':
        go(gen(rng, 3000 if q else 50000, 6 if q else 8, cancels=True), 'programs_with_cancels')
        go(gen(rng, 800 if q else 10000, 5, cancels=True, behaviours=False, keys=2), 'cancels_shared_keys')
        go(queue_pressure(rng, 400 if q else 6000), 'queue_pressure')
    elif ctx.prop == 'C10':
        go(c10_grid(ctx.tier), 'arrival_grid')
        go(gen(rng, 1500 if q else 30000, 8 if q else 12, behaviours=False, keys=12, setmax=True,
               explicit_keys=False), 'programs_setmax')
        fails = gen(rng, 800 if q else 12000, 8, behaviours=False, keys=12, explicit_keys=False)
        for sc in fails:     # batches that raise must give their slot back, and only theirs
            sc['raise_at'] = [rng.randint(1, 2), rng.randint(0, 1)]
            sc['batch_dur'] = rng.choice([2.0, BT, 2 * BT])
            sc['end'] = end_time(sc['calls'], sc['opts'], sc)
        go(fails, 'raising_batches')
        go(bursts(rng, 300 if q else 5000), 'bursts')
        go(trickle_burst(rng, 400 if q else 6000), 'trickle_burst')
    else:
        go(c11_grid(ctx.tier), 'retention_grid')
        go(failed_then_retry(), 'failed_then_retry')
        go(completion_instant(rng, 500 if q else 8000), 'completion_instant')
        go(gen(rng, 1500 if q else 30000, 7 if q else 10, behaviours=False, keys=3), 'programs')
    # implementation conformance: a sample of the recorded executions against the timed model itself
    batchermodel.conformance(ctx, executed, limit=40 if q else 400)
    return ctx.finish(
        rule='timed programs of calls in virtual time: keys from a small domain (default str(arg) and explicit '
             'keys), arrival gaps on a grid straddling batch_timeout and retention_timeout, max_batch_size 1..5 '
             '(also mutated while running), max_concurrent_batches 1..3, retention in {0, small, large}, per-key '
             'batch-function behaviours {value, Exception value, omitted, yielded twice, unknown key, raise '
             'mid-batch}, result order forward/reverse/shuffled, per-item and per-batch durations, cancels and '
             'time-outs of callers at grid instants (C09); plus exhaustive grids (C10 arrivals, C11 same-key '
             'gaps); distinct = distinct observable traces; non-trivial = at least 2 calls')
