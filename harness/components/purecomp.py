"""C18 (split/exhaust), C19 (parse_to_dict), C20 (gather_excs): TLC enumerates the cases from the
transcribed specification, the real functions are executed on each, and TLC validates the recorded
results against the same specification."""
import random

from harness import tlc, core, tlaparse

DRIVER = 'harness.drivers.pure'
COMP = 'pure'


def known_match(k, clause, idx, sc, r):
    return False


def tlc_cases(ctx, module, cfg, marker, workers=1, timeout=900, simulate=None, depth=None, extra=(), cfg_text=None):
    out, dt, rc = tlc.run_tlc(COMP, module, cfg, workers=workers, timeout=timeout, simulate=simulate, depth=depth,
                              extra=extra, cfg_text=cfg_text)
    r = tlc.parse_mc(out)
    if r['error'] or (not simulate and not r['complete']):
        raise core.MachineryError('%s %s failed: %s\n%s' % (module, cfg, r['error'], out[-2000:]))
    cases = tlaparse.printed(out, marker)
    ctx.cov['mc_runs'].append({'module': module, 'cfg': cfg, 'distinct': r['distinct'], 'generated': r['generated'],
                               'seconds': round(dt, 1), 'cases_printed': len(cases), 'simulate': simulate})
    if not simulate:
        ctx.cov['states'] += r['distinct']
        ctx.cov['transitions'] += r['generated']
    return cases


def run_c18(ctx):
    rng = random.Random(ctx.seed + 18)
    n = 3 if ctx.tier == 'quick' else 4
    raw = tlc_cases(ctx, 'SplitGen', 'SplitGen_%d.cfg' % n, 'CASE')
    seen = set()
    scs = []
    forms = ['list', 'iter', 'gen']
    for _, src, kind, c, order in raw:
        key = (tuple(src), kind, tuple(c), tuple(order))
        if key in seen:
            continue
        seen.add(key)
        i = len(scs)
        scs.append({'kind': 'split', 'src': src, 'ckind': kind, 'c': c, 'order': order,
                    'form': forms[i % 3], 'cform': ['list', 'iter'][(i // 3) % 2]})
        if i % 4 == 3 and len(order) >= 2:     # one result iterator is closed and dropped part-way: the other one is unaffected
            scs[-1]['drop'] = [order[0], 1 + (i // 4) % (len(order) - 1)]
    if len(scs) < 1000:
        raise core.MachineryError('SplitGen produced only %d cases' % len(scs))
    # longer sources: random configurations, every order generated in Python from the same alphabet
    extra = []
    for _ in range(1500 if ctx.tier == 'quick' else 30000):
        ln = rng.randint(4 if ctx.tier == 'quick' else 5, 7)
        src = [rng.choice([1, 2]) for _ in range(ln)]
        kind = rng.choice(['bools', 'fn_val', 'fn_idx'])
        if kind == 'bools':
            c = [rng.random() < 0.5 for _ in range(rng.randint(0, ln + 2))]
        elif kind == 'fn_val':
            c = [rng.random() < 0.5, rng.random() < 0.5]
        else:
            c = [rng.random() < 0.5 for _ in range(ln)]
        order = [rng.choice('TF') for _ in range(rng.randint(0, ln + 3))]
        extra.append({'kind': 'split', 'src': src, 'ckind': kind, 'c': c, 'order': order,
                      'form': rng.choice(forms), 'cform': rng.choice(['list', 'iter'])})
        if len(order) >= 2 and rng.random() < 0.3:
            extra[-1]['drop'] = [rng.choice('TF'), rng.randint(0, len(order) - 1)]
    for fam, part in (('tlc_enumerated', scs), ('random_longer', extra)):
        for off in range(0, len(part), 8000):
            ctx.run_and_validate(DRIVER, COMP, 'SplitTrace', part[off:off + 8000], fam,
                                 nontrivial=lambda sc, r: len(sc['src']) >= 2, known_match=known_match)
    ctx.cov['exhaustive'] = True
    return ctx.finish(
        rule='TLC enumerates from SplitGen.tla every configuration with sources of length 0..%d over {1,2}, conditions as '
             'boolean iterables of length 0..%d (truthy/falsy non-bool values), stateless and stateful callables, and every '
             'order of next() calls on the two iterators including abandoning one; sources as list / one-shot iterator / '
             'generator; plus random configurations of length up to 7; each recorded run is validated by TLC against '
             'SplitContract.tla; distinct = distinct traces; non-trivial = source length >= 2' % (n, n + 1))


def run(ctx):
    if ctx.prop == 'C18':
        return run_c18(ctx)
    if ctx.prop == 'C19':
        from harness.components import parsecomp
        return parsecomp.run(ctx)
    if ctx.prop == 'C20':
        from harness.components import gathercomp
        return gathercomp.run(ctx)
    raise ValueError(ctx.prop)
