"""C13: a crashed holder never leaves the FileLock stuck.

Crash-point enumeration on the real code with real processes and the real flock(2): a forked
victim runs a scenario under a line tracer and SIGKILLs itself at the n-th line event inside
aiuti/filelock.py, for every n; afterwards a fresh process must acquire the lock promptly,
and live contenders keep excluding each other.  The recorded histories are validated by TLC
against CrashContract (specs/filelock/CrashTrace.tla); the model FileLock.tla is checked with
Crash(p) enabled at every control point."""
import os
import sys
import json
import time
import signal
import random
import tempfile
import shutil
import select

from harness import pool, tlc, core

COMP = 'filelock'
TRACE = 'CrashTrace'
PROMPT_MS = 2000


VICTIM_WALL = 30.0        # a victim's whole scenario takes milliseconds
CONTENDER_WALL = 8.0      # contenders notice the stop signal within one round (time-outs of at most 1 s)


def _import():
    pool.import_aiuti()
    import aiuti.filelock as F
    return F


def scenario_body(F, lock, kind):
    """What the victim does (every line of it inside filelock.py is a crash point)."""
    if kind == 'blocking':
        lock.acquire()
        lock.release()
    elif kind == 'timed':
        if lock.acquire(timeout=0.05, poll_interval=0.01):
            lock.release()
    elif kind == 'with':
        with lock:
            pass
    elif kind == 'ctx':
        with lock.acquire_ctx(timeout=0.05, poll_interval=0.01):
            pass
    elif kind == 'nested':
        with lock:
            with lock:
                lock.acquire()
                lock.release()
    elif kind == 'forced':
        lock.acquire()
        lock.acquire()
        lock.release(force=True)
    elif kind == 'contended_timed':
        # somebody else holds the lock: the victim polls, then gives up
        lock.acquire(timeout=0.03, poll_interval=0.01)
        lock.release()
    else:
        raise ValueError(kind)


SCENARIOS = [('blocking', False), ('timed', False), ('with', False), ('nested', True), ('ctx', False),
             ('forced', True), ('contended_timed', False)]


def run_victim(F, path, kind, reentrant, kill_at, inherited_lock=None):
    """Fork a victim; returns (lines_executed or None, killed: bool, landmark)."""
    r, w = os.pipe()
    pid = os.fork()
    if pid == 0:
        try:
            os.close(r)
            fn = os.path.realpath(F.__file__)
            count = [0]

            def ltrace(frame, event, arg):
                if event == 'line':
                    count[0] += 1
                    if count[0] == kill_at:
                        os.write(w, json.dumps({'killed_at': count[0], 'where': [frame.f_code.co_name, frame.f_lineno]}).encode())
                        os.kill(os.getpid(), signal.SIGKILL)
                return ltrace

            def gtrace(frame, event, arg):
                if os.path.realpath(frame.f_code.co_filename) == fn:
                    return ltrace
                return None
            lock = inherited_lock if inherited_lock is not None else F.FileLock(path, reentrant=reentrant)
            sys.settrace(gtrace)
            try:
                scenario_body(F, lock, kind)
            finally:
                sys.settrace(None)
            os.write(w, json.dumps({'lines': count[0]}).encode())
        finally:
            os._exit(0)
    os.close(w)
    data, late = _read_all(r, VICTIM_WALL)
    os.close(r)
    if late:                      # the victim neither finished nor reached its crash point: it hangs
        os.kill(pid, signal.SIGKILL)
    _, st = os.waitpid(pid, 0)
    try:
        info = json.loads(data.decode()) if data else {}
    except ValueError:
        info = {}
    info['signaled'] = os.WIFSIGNALED(st)
    info['hung'] = bool(late)
    return info


def _reap(pids, secs):
    """Wait up to `secs` for the processes to exit; SIGKILL and return the ones that did not."""
    deadline = time.time() + secs
    alive = set(pids)
    while alive and time.time() < deadline:
        for p in list(alive):
            try:
                pid, st = os.waitpid(p, os.WNOHANG)
            except ChildProcessError:
                pid = p
            if pid:
                alive.discard(p)
        if alive:
            time.sleep(0.01)
    for p in alive:
        try:
            os.kill(p, signal.SIGKILL)
            os.waitpid(p, 0)
        except (ProcessLookupError, ChildProcessError):
            pass
    return alive


def _read_all(r, secs):
    """Read a pipe until EOF, but for at most `secs`; returns (data, timed_out)."""
    deadline = time.time() + secs
    data = b''
    while True:
        left = deadline - time.time()
        if left <= 0:
            return data, True
        rl, _, _ = select.select([r], [], [], left)
        if not rl:
            return data, True
        b = os.read(r, 65536)
        if not b:
            return data, False
        data += b


def probe(F, path, timeout_s):
    """A fresh process tries to acquire; returns (ok, ms)."""
    r, w = os.pipe()
    pid = os.fork()
    if pid == 0:
        try:
            os.close(r)
            lock = F.FileLock(path)
            t0 = time.time()
            ok = lock.acquire(timeout=timeout_s, poll_interval=0.005)
            ms = int((time.time() - t0) * 1000)
            if ok:
                lock.release()
            os.write(w, json.dumps([bool(ok), ms]).encode())
        finally:
            os._exit(0)
    os.close(w)
    data, late = _read_all(r, timeout_s + 15.0)
    os.close(r)
    if late:                      # (an acquire with a time-out that does not come back)
        os.kill(pid, signal.SIGKILL)
    os.waitpid(pid, 0)
    try:
        return json.loads(data.decode()) if data else [False, -1]
    except ValueError:
        return [False, -1]


def contender(F, path, logp, cid, stop_r):
    """Live contender process: rounds of acquire / section / release until told to stop."""
    pid = os.fork()
    if pid:
        return pid
    try:
        log = os.open(logp, os.O_WRONLY | os.O_APPEND)
        if cid % 2 == 1:
            # a daemon-style survivor: standard input closed, so descriptor 0 is free and the lock file may get it
            try:
                os.close(0)
            except OSError:
                pass
        lock = F.FileLock(path)
        h = cid * 1000000
        try:
            while True:
                rl, _, _ = select.select([stop_r], [], [], 0)
                if rl:
                    break
                got = lock.acquire() if cid % 2 == 0 else lock.acquire(timeout=1.0, poll_interval=0.002)
                if got:
                    h += 1
                    os.write(log, ('E %d %d\n' % (cid, h)).encode())
                    os.write(log, ('X %d %d\n' % (cid, h)).encode())
                    lock.release()
                time.sleep(0.001)
        except BaseException as e:    # a survivor for whom acquire() / release() raises cannot use the lock any more
            os.write(log, ('R %d %d\n' % (cid, 0)).encode())
    finally:
        os._exit(0)


def one_case(args):
    """Executed in a pool worker: one (scenario, crash index, contenders) case -> trace."""
    kind, reentrant, kill_at, ncont, inherited = args
    F = _import()
    d = tempfile.mkdtemp(prefix='vcrash-')
    try:
        path = os.path.join(d, 'the.lock')
        logp = os.path.join(d, 'log')
        open(logp, 'w').close()
        ev = [{'n': 0, 't': 0, 'e': 'CrashConfig', 'kind': kind, 'kill_at': kill_at, 'contenders': ncont,
               'prompt_ms': PROMPT_MS, 'inherited': bool(inherited)}]
        holder = None
        if kind == 'contended_timed':
            holder = F.FileLock(path)
            holder.acquire()
        inh = None
        if inherited:
            inh = F.FileLock(path, reentrant=reentrant)
            inh.acquire()
            inh.release()
        stop_r, stop_w = os.pipe()
        cpids = [contender(F, path, logp, c + 1, stop_r) for c in range(ncont)]
        info = run_victim(F, path, kind, reentrant, kill_at, inherited_lock=inh)
        if holder is not None:
            holder.release()
        if 'killed_at' in info:
            ev.append({'n': 1, 't': 0, 'e': 'Killed', 'nth': info['killed_at'], 'fn': info['where'][0], 'line': info['where'][1]})
        else:
            ev.append({'n': 1, 't': 0, 'e': 'Completed', 'lines': info.get('lines', 0)})
            if info.get('hung'):  # the (uncrashed) victim itself never got through its acquire/release
                ev.append({'n': 1, 't': 0, 'e': 'Probe', 'ok': False, 'ms': int(VICTIM_WALL * 1000), 'who': 'victim'})
        ok, ms = probe(F, path, PROMPT_MS / 1000.0 + 1.0)
        ev.append({'n': 2, 't': 0, 'e': 'Probe', 'ok': ok, 'ms': ms})
        if ncont == 0 and holder is None:
            # nobody else is around: the lock is simply free, also for an attempt that does not wait at all
            ok0, ms0 = probe(F, path, 0.0)
            ev.append({'n': 2, 't': 0, 'e': 'Probe', 'ok': ok0, 'ms': ms0, 'who': 'timeout0'})
        time.sleep(0.01 if ncont else 0)
        os.write(stop_w, b'x')
        stuck = _reap(cpids, CONTENDER_WALL)
        if stuck:                 # a live contender is still blocked in acquire() long after the crash
            ev.append({'n': 2, 't': 0, 'e': 'Probe', 'ok': False, 'ms': int(CONTENDER_WALL * 1000), 'who': 'contender'})
        os.close(stop_r)
        os.close(stop_w)
        n = 3
        for line in open(logp):
            k, cid, h = line.split()
            n += 1
            if k == 'R':
                ev.append({'n': n, 't': 0, 'e': 'Probe', 'ok': False, 'ms': 0, 'who': 'contender-raised'})
            else:
                ev.append({'n': n, 't': 0, 'e': 'Enter' if k == 'E' else 'Exit', 'h': int(h)})
        ev.append({'n': n + 1, 't': 0, 'e': 'End', 'status': 'ok', 'lines': info.get('lines', 0)})
        return ev
    finally:
        shutil.rmtree(d, ignore_errors=True)


def long_hold_case(args):
    """The holder dies (SIGKILL) after holding the lock for hold_s while a contender has been waiting
    for it with a plain timed acquire (default poll interval): the contender must get the lock
    promptly after the death, however long it had already waited."""
    hold_s, fast = (tuple(args) + (False,))[:2]
    F = _import()
    d = tempfile.mkdtemp(prefix='vcrash-')
    try:
        path = os.path.join(d, 'the.lock')
        ev = [{'n': 0, 't': 0, 'e': 'CrashConfig', 'kind': 'long_hold', 'kill_at': 0, 'contenders': 1,
               'prompt_ms': PROMPT_MS, 'inherited': False}]
        r1, w1 = os.pipe()
        victim = os.fork()
        if victim == 0:
            try:
                lock = F.FileLock(path)
                lock.acquire()
                os.write(w1, b'h')
                time.sleep(hold_s + 30)
            finally:
                os._exit(0)
        os.read(r1, 1)
        r2, w2 = os.pipe()
        cont = os.fork()
        if cont == 0:
            try:
                lock = F.FileLock(path)
                if fast:
                    import resource
                    # a waiting contender polls many times before the holder dies: with a small descriptor budget
                    # every failed attempt that kept a descriptor would make the lock unobtainable for it (EMFILE)
                    soft, hard = resource.getrlimit(resource.RLIMIT_NOFILE)
                    resource.setrlimit(resource.RLIMIT_NOFILE, (min(soft, 48), hard))
                    ok = lock.acquire(timeout=hold_s + 20, poll_interval=0.01)
                else:
                    ok = lock.acquire(timeout=hold_s + 20)
                os.write(w2, json.dumps([bool(ok), time.time()]).encode())
                if ok:
                    lock.release()
            finally:
                os._exit(0)
        os.close(w2)
        time.sleep(hold_s)
        os.kill(victim, signal.SIGKILL)
        tk = time.time()
        os.waitpid(victim, 0)
        ev.append({'n': 1, 't': 0, 'e': 'Killed', 'nth': 0, 'fn': 'holding', 'line': 0})
        rl, _, _ = select.select([r2], [], [], 15.0)
        if rl:
            ok, ta = json.loads(os.read(r2, 4096).decode())
            ev.append({'n': 2, 't': 0, 'e': 'Probe', 'ok': ok, 'ms': max(0, int((ta - tk) * 1000))})
        else:
            ev.append({'n': 2, 't': 0, 'e': 'Probe', 'ok': False, 'ms': 15000})
            os.kill(cont, signal.SIGKILL)
        os.waitpid(cont, 0)
        ev.append({'n': 3, 't': 0, 'e': 'End', 'status': 'ok', 'lines': 0})
        return ev
    finally:
        shutil.rmtree(d, ignore_errors=True)


def long_hold2_case(args):
    """The holder is SIGKILLed while two contenders are blocked in a plain acquire() on the lock file; both
    then take their turn with a critical section of some length: the survivors must still exclude each other."""
    hold_s, section_s = args
    F = _import()
    d = tempfile.mkdtemp(prefix='vcrash-')
    try:
        path = os.path.join(d, 'the.lock')
        logp = os.path.join(d, 'log')
        open(logp, 'w').close()
        ev = [{'n': 0, 't': 0, 'e': 'CrashConfig', 'kind': 'long_hold2', 'kill_at': 0, 'contenders': 2,
               'prompt_ms': PROMPT_MS, 'inherited': False}]
        r1, w1 = os.pipe()
        victim = os.fork()
        if victim == 0:
            try:
                lock = F.FileLock(path)
                lock.acquire()
                os.write(w1, b'h')
                time.sleep(hold_s + 30)
            finally:
                os._exit(0)
        os.read(r1, 1)
        conts = []
        for cid in (1, 2):
            pid = os.fork()
            if pid == 0:
                try:
                    log = os.open(logp, os.O_WRONLY | os.O_APPEND)
                    lock = F.FileLock(path)
                    if lock.acquire():
                        os.write(log, ('E %d %d\n' % (cid, cid)).encode())
                        time.sleep(section_s)
                        os.write(log, ('X %d %d\n' % (cid, cid)).encode())
                        lock.release()
                finally:
                    os._exit(0)
            conts.append(pid)
        time.sleep(hold_s)
        os.kill(victim, signal.SIGKILL)
        os.waitpid(victim, 0)
        ev.append({'n': 1, 't': 0, 'e': 'Killed', 'nth': 0, 'fn': 'holding', 'line': 0})
        deadline = time.time() + 10 + 2 * section_s
        alive = set(conts)
        while alive and time.time() < deadline:
            for p in list(alive):
                pid, st = os.waitpid(p, os.WNOHANG)
                if pid:
                    alive.discard(p)
            time.sleep(0.01)
        for p in alive:
            os.kill(p, signal.SIGKILL)
            os.waitpid(p, 0)
        n = 2
        entered = 0
        for line in open(logp):
            k, cid, h = line.split()
            n += 1
            entered += k == 'E'
            ev.append({'n': n, 't': 0, 'e': 'Enter' if k == 'E' else 'Exit', 'h': int(h)})
        ev.append({'n': n + 1, 't': 0, 'e': 'Probe', 'ok': entered == 2 and not alive, 'ms': 0})
        ev.append({'n': n + 2, 't': 0, 'e': 'End', 'status': 'ok', 'lines': 0})
        return ev
    finally:
        shutil.rmtree(d, ignore_errors=True)


def run(ctx):
    import multiprocessing as mp
    from harness.components import filelockmodel
    filelockmodel.model_check(ctx)
    rng = random.Random(ctx.seed + 13)
    F = _import()
    # how many line events does each scenario execute inside filelock.py?
    cases = []
    counts = {}
    for kind, reentrant in SCENARIOS:
        if ctx.tier == 'quick' and kind in ('ctx', 'forced'):
            continue
        tr = one_case((kind, reentrant, 0, 0, False))
        lines = [e for e in tr if e['e'] == 'End'][0]['lines']
        if lines < 5:
            raise core.MachineryError('C13: scenario %s executed only %d lines in filelock.py' % (kind, lines))
        counts[kind] = lines
        for n in range(1, lines + 1):
            conts = [0] if ctx.tier == 'quick' else [0, 1, 2]
            if ctx.tier == 'quick' and n % 4 == 0:
                conts = [0, 2]
            for nc in conts:
                cases.append((kind, reentrant, n, nc, False))
            if kind in ('blocking', 'nested') and (ctx.tier == 'thorough' or n % 3 == 0):
                cases.append((kind, reentrant, n, 0, True))
    with mp.get_context('fork').Pool(min(16, os.cpu_count() or 4)) as p:
        lh = p.map_async(long_hold_case, [(3.6, False), (1.5, True)] if ctx.tier == 'quick'
                         else [(3.6, False), (7.0, False), (1.0, False), (1.5, True), (4.0, True)])
        lh2 = p.map_async(long_hold2_case, [(1.0, 0.4)] if ctx.tier == 'quick' else [(1.0, 0.4), (2.0, 0.5), (0.5, 0.3)])
        # (every case bounds its own waits; the overall limit only guards against a lost pool worker)
        limit = 1800 if ctx.tier == 'quick' else 7200
        try:
            traces = p.map_async(one_case, cases, chunksize=4).get(limit)
            lht = lh.get(300)
            lht2 = lh2.get(300)
        except mp.TimeoutError:
            p.terminate()
            raise core.MachineryError('C13: the crash-point cases did not finish within %d s' % limit)
    cases = cases + [('long_hold', False, 0, 1, False)] * len(lht) + [('long_hold2', False, 0, 2, False)] * len(lht2)
    traces = traces + lht + lht2
    verdicts, st = tlc.validate_batch(COMP, TRACE, traces)
    ctx.cov['states'] += st['states']
    ctx.cov['transitions'] += st['generated']
    ctx.cov['traces_validated_against_impl'] += len(traces)
    ctx.cov['evaluations'] += len(traces)
    killed = sum(1 for t in traces if any(e['e'] == 'Killed' for e in t))
    ctx.cov['distinct_nontrivial'] = len({(t[0]['kind'], t[1].get('fn'), t[1].get('line'), t[0]['contenders'], t[0]['inherited'])
                                          for t in traces if t[1]['e'] == 'Killed'})
    ctx.cov['families']['crash_points'] = {'cases': len(traces), 'killed': killed, 'lines_per_scenario': counts,
                                           'max_probe_ms': max(e['ms'] for t in traces for e in t if e['e'] == 'Probe')}
    ctx.cov['samples'].append({'case': traces[len(traces) // 2][:6]})
    for case, tr, v in zip(cases, traces, verdicts):
        hit = v.get('C13')
        if hit is not None:
            ctx.violation('C13', hit[0], hit[1], {'mode': 'crash', 'case': list(case)}, {'events': tr, 'decisions': []},
                          'crash_points', 'harness.components.crashcomp', None)
    return ctx.finish(level='fault_enumeration',
                      rule='victim process SIGKILLed at every line event inside aiuti/filelock.py for the scenarios '
                           'blocking / timed / with / reentrant-nested (+ acquire_ctx, forced release, contended '
                           'timed in thorough), with 0..2 live contender processes and with a FileLock object '
                           'inherited across fork; afterwards a fresh process must acquire within %d ms; '
                           'non-trivial = distinct (scenario, function, line, contenders, inherited) crash points' % PROMPT_MS)


def replay(prop, path):
    rep = json.load(open(path))
    case = tuple(rep['scenario']['case'])
    tr = (long_hold_case((3.6,)) if case[0] == 'long_hold' else long_hold2_case((0.5, 0.3)) if case[0] == 'long_hold2'
          else one_case(case))
    verdicts, st = tlc.validate_batch(COMP, TRACE, [tr])
    hit = verdicts[0].get('C13')
    print('replay verdict:', hit)
    return 1 if hit else 0
