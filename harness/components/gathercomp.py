"""C20: gather_excs / raise_first_exc."""
import random
from harness.components.purecomp import tlc_cases, DRIVER, COMP, known_match
from harness import core


def run(ctx):
    rng = random.Random(ctx.seed + 20)
    n = 2 if ctx.tier == 'quick' else 3
    raw = tlc_cases(ctx, 'GatherGen', 'GatherGen_%d.cfg' % n, 'CASE', workers=1)
    scs = []
    for i, (_, aws, only, fn, exp) in enumerate(raw):
        scs.append({'kind': 'gather', 'aws': aws, 'only': only, 'fn': fn, 'form': ['coro', 'task', 'mixed'][i % 3],
                    'yield0': i % 2 == 0, 'warm': (i // 6) % 13})
    if len(scs) < 2000:
        raise core.MachineryError('GatherGen produced only %d cases' % len(scs))
    outs = ['ok', 'Base', 'Sub', 'Unrel', 'BaseOnly']
    onlys = ['BaseException', 'Exception', 'Base', 'Sub', 'Unrel', 'BaseOnly']
    extra = []
    for _ in range(2500 if ctx.tier == 'quick' else 40000):
        k = rng.randint(n + 1, 5)
        extra.append({'kind': 'gather', 'aws': [[rng.choice([0, 1, 2, 3]), rng.choice(outs)] for _ in range(k)],
                      'only': rng.choice(onlys), 'fn': rng.choice(['gather_excs', 'raise_first_exc']),
                      'form': rng.choice(['coro', 'task', 'mixed']), 'yield0': rng.random() < 0.5,
                      'warm': rng.choice([0, 0, 3, 5, 6, 7, 8, 9, 10, 95, 96, 97])})
    for fam, part in (('tlc_enumerated', scs), ('random_longer', extra)):
        for off in range(0, len(part), 8000):
            ctx.run_and_validate(DRIVER, COMP, 'GatherTrace', part[off:off + 8000], fam,
                                 nontrivial=lambda sc, r: len(sc['aws']) >= 2, known_match=known_match)
    ctx.cov['exhaustive'] = True
    return ctx.finish(
        rule='TLC enumerates from GatherGen.tla every list of 0..%d awaitables [delay in {0,1,2}, outcome in {ok, Base, '
             'Sub(Base), Unrel, BaseException-only}] x only over the hierarchy x {gather_excs, raise_first_exc}; plus random '
             'lists of up to 5; awaitables as coroutines / tasks / mixed, run in virtual time so finishing order is every '
             'permutation; validated by TLC against GatherContract.tla; non-trivial = at least 2 awaitables' % n)
