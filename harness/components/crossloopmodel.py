"""Model side of the cross-loop check: exhaustive TLC runs of specs/crossloop/CrossLoop.tla."""


def model_check(ctx):
    for cfg, expect in (('CL_idle1', None), ('CL_idle3', None), ('CL_lit3', None), ('CL_closed2', None),
                        ('W_D7', 'NoStranded'), ('W_ReCheck', 'OneLockPerLoop'), ('W_ReCheck2', 'NoAlreadyRunning')):
        if expect:
            ctx.mc('crossloop', 'MC_CrossLoop', cfg + '.cfg', expect_violation=expect, timeout=300)
        else:
            ctx.mc('crossloop', 'MC_CrossLoop', cfg + '.cfg', timeout=600)
