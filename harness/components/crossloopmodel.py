"""Model side of the cross-loop check: exhaustive TLC runs of specs/crossloop/CrossLoop.tla."""


def model_check(ctx):
    for cfg, expect in (('CL_idle1', None), ('CL_idle3', None), ('CL_lit3', None), ('CL_closed2', None), ('CL_mixed2', None),
                        ('CL_idle4', None), ('CL_lit4', None), ('CL_mixed3', None),
                        ('W_D7', 'NoStranded'), ('W_D7b', 'StartSync'), ('W_ReCheck', 'OneLockPerLoop'), ('W_ReCheck2', 'NoAlreadyRunning')):
        if expect:
            ctx.mc('crossloop', 'MC_CrossLoop', cfg + '.cfg', expect_violation=expect, timeout=300)
        else:
            ctx.mc('crossloop', 'MC_CrossLoop', cfg + '.cfg', timeout=600)
    inductive(ctx)


def inductive(ctx):
    """Apalache: IndInv of Apa_CrossLoop.tla holds initially, is preserved by every step and implies the C17
    invariants - for every set of up to 4 callers and every mode, without enumerating the reachable states.  The
    same obligation without the locked re-check of _get_loop_lock must fail (vacuity guard)."""
    from harness import apalache, core
    obligations = [('base', 'CInit', 'Init', 'IndInv', 0, 'ok'),
                   ('step', 'CInit', 'IndInv', 'IndInv', 1, 'ok'),
                   ('implies', 'CInit', 'IndInv', 'Consequences', 0, 'ok'),
                   ('step_without_recheck', 'CInitNoReCheck', 'IndInv', 'IndInv', 1, 'violated')]
    runs = []
    for name, cinit, init, inv, length, want in obligations:
        res, dt, tail = apalache.check('crossloop', 'Apa_CrossLoop', cinit, init, inv, length)
        runs.append({'obligation': name, 'cinit': cinit, 'init': init, 'inv': inv, 'length': length,
                     'result': res, 'expected': want, 'seconds': round(dt, 1)})
        if res != want:
            raise core.MachineryError('Apalache obligation %s of Apa_CrossLoop: expected %s, got %s\n%s' % (name, want, res, tail))
    ctx.cov['apalache'] = {'module': 'Apa_CrossLoop', 'runs': runs,
                           'what': 'inductive invariant IndInv (implies OneLockPerLoop, OneRunner, NoAlreadyRunning, StartSync, '
                                   'StopSync) discharged symbolically for all caller sets within {C1..C4} and all modes'}


# ---------------------------------------------------------------------------------------------
# implementation conformance (code -> spec): recorded executions against CrossLoop.tla
import json as _json
import os as _os
import re as _re
import shutil as _shutil
from concurrent.futures import ThreadPoolExecutor as _TPE

_KEEP = ('CallStart', 'RunnerEnter', 'RunnerExit', 'AwEval', 'CallEnd', 'LITReturned', 'StopCalled', 'StopReturned')


def _prep(sc, r):
    if sc.get('target') not in ('idle', 'lit', 'closed'):
        return None
    for cs in sc['callers']:
        if cs.get('to', 'T') != 'T' or cs.get('fn', 'ensure_aw') != 'ensure_aw' or cs['aw'].get('kind', 'coro') != 'coro':
            return None
    ev = []
    for e in r['events']:
        k = e['e']
        if k in ('Config', 'Tick', 'End', 'AwDone'):
            continue
        if k not in _KEEP or 'st' not in e:
            return None
        if k in ('RunnerEnter', 'RunnerExit') and e.get('loop') != 'T':
            continue
        d = {'e': k, 'st': e['st']}
        if 'c' in e:
            d['c'] = 'C%d' % e['c']
        if k == 'CallEnd':
            d['kind'] = e['kind']
        ev.append(d)
    return {'events': ev, 'callers': ['C%d' % cs['c'] for cs in sc['callers']], 'mode': sc['target']}


def _one(p):
    from harness import tlc
    mod = ('---- MODULE MC_CrossLoopConform ----\nEXTENDS CrossLoopConform\nCCallers == {%s}\n====\n'
           % ', '.join('"%s"' % c for c in p['callers']))
    cfg = ('INIT CInit\nNEXT CNext\nCONSTANTS\n Callers <- CCallers\n Mode = "%s"\n ReCheck = TRUE\n OwnStart = TRUE\n D7Stutter = FALSE\n'
           'CONSTRAINT Reached\nCONSTRAINT NotYetAccepted\nCHECK_DEADLOCK FALSE\n' % p['mode'])
    work = tlc.scratch('clconf-')
    try:
        tf = _os.path.join(work, 'trace.json')
        with open(tf, 'w') as f:
            _json.dump(p['events'], f)
        out, dt, rc = tlc.run_tlc('crossloop', 'MC_CrossLoopConform', 'MC_CrossLoopConform.cfg', workers=1,
                                  timeout=int(_os.environ.get('CONF_TIMEOUT', '90')), env={'TRACE_FILE': tf},
                                  cfg_text=cfg, extra_files={'MC_CrossLoopConform.tla': mod},
                                  jvm=['-Dtlc2.tool.queue.IStateQueue=StateDeque'], heap='1g')
    finally:
        _shutil.rmtree(work, ignore_errors=True)
    r = tlc.parse_mc(out)
    best = 1
    for m in _re.finditer(r'<< ?"REACHED", 1, (\d+), (\d+) ?>>', _re.sub(r'\s+', ' ', out)):
        best = max(best, int(m.group(1)))
    err = r['error']
    return best, len(p['events']) + 1, err, r['distinct'], r['generated'], (out[out.find('Error:'):][:900] if err and err != 'timeout' else '')


def conformance(ctx, executed, limit=30):
    todo = []
    seen = set()
    for sc, r, v in executed:
        if r.get('status') != 'ok' or any(x is not None for x in v.values()):
            continue
        p = _prep(sc, r)
        if p is None or not (2 <= len(p['events']) <= 60):
            continue
        key = _json.dumps(p, sort_keys=True)
        if key in seen:
            continue
        seen.add(key)
        todo.append(p)
    # prefer variety: round-robin over (mode, number of callers), longest first within a class
    classes = {}
    for p in todo:
        classes.setdefault((p['mode'], len(p['callers'])), []).append(p)
    for v in classes.values():
        v.sort(key=lambda p: -len(p['events']))
    picked = []
    while len(picked) < limit and any(classes.values()):
        for k in sorted(classes):
            if classes[k] and len(picked) < limit:
                picked.append(classes[k].pop(0))
    acc = und = 0
    drift = []
    with _TPE(8) as ex:
        for p, (best, n, err, ds, gen, tail) in zip(picked, ex.map(_one, picked)):
            ctx.cov['states'] += ds
            ctx.cov['transitions'] += gen
            if best >= n:
                acc += 1
            elif err == 'timeout':
                und += 1
            elif err:
                ctx.notes.append('crossloop conformance: TLC error: %s' % (tail,))
                und += 1
            else:
                drift.append({'matched_prefix': best - 1, 'of': n - 1, 'mode': p['mode'],
                              'first_unexplained': p['events'][best - 1], 'events': p['events'][:best]})
    ctx.cov['conformance'] = {'traces_checked': len(picked), 'accepted': acc, 'drift': len(drift), 'undecided': und,
                              'drift_samples': drift[:3],
                              'what': 'recorded executions of caller threads on the real ensure_aw / loop_in_thread validated against '
                                      'CrossLoop.tla: same observable points (call start/end, runner enter/exit, awaitable evaluated, '
                                      'loop_in_thread / stop returned), internal steps silent, projected state (T running, lock table '
                                      'entry, loop lock held, creation lock held) compared at every observable point'}
    ctx.cov['conformance_divergences'] = len(drift)
    return len(picked), acc, drift
