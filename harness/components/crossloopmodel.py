"""Model side of the cross-loop check (CrossLoop.tla)."""


def model_check(ctx):
    pass
