"""C17: cross-loop awaiting."""
import random

DRIVER = 'harness.drivers.crossloop'
COMP = 'crossloop'
TRACE = 'CrossLoopTrace'


def strat(rng):
    r = rng.random()
    if r < 0.35:
        return {'kind': 'random', 'seed': rng.randrange(1 << 30), 'stick': rng.choice([0.0, 0.5, 0.9])}
    if r < 0.9:
        return {'kind': 'pct', 'seed': rng.randrange(1 << 30), 'depth': rng.choice([1, 2, 3, 4]), 'est_len': 150}
    return {'kind': 'replay', 'prefix': []}


def gen(rng, n, modes=('idle', 'lit', 'closed', 'own', 'idle_then_lit')):
    out = []
    for _ in range(n):
        mode = rng.choice(modes)
        target = 'idle' if mode == 'own' else mode
        nc = rng.choice([1, 2, 2, 3]) if mode != 'idle' else rng.choice([1, 1, 2, 3])
        if mode == 'idle_then_lit':
            nc = 1           # (several concurrent callers on an idle loop are the known finding D7)
        callers = []
        for i in range(nc):
            kind = (rng.choice(['coro', 'coro', 'coro', 'donefut']) if target in ('lit', 'idle_then_lit') and mode != 'own'
                    else rng.choice(['coro', 'coro', 'task', 'future', 'donefut']))
            callers.append({'c': i + 1, 'thr': 'C%d' % (i + 1), 'start': rng.choice([0.0, 0.0, 0.0, 1.0]),
                            'fn': 'ensure_aw' if mode != 'lit' else rng.choice(['ensure_aw', 'ensure_aw', 'run_aw_threadsafe']),
                            'to': 'own' if mode == 'own' or rng.random() < 0.15 else 'T',
                            'aw': {'kind': kind, 'out': rng.choice(['val', 'val', 'exc']),
                                   'exccls': rng.choice(['plain', 'runtime', 'runtime', 'lookup', 'timeout']),
                                   'dur': rng.choice([0.0, 0.0, 1.0, 2.0])}})
        sc = {'target': target, 'callers': callers, 'stop_at': rng.choice([0.0, 0.0, 3.0]), 'strategy': strat(rng)}
        if mode == 'idle_then_lit':
            sc['lit_at'] = rng.choice([0.0, 0.0, 0.5, 1.0])
            for c in callers:
                c['fn'] = 'ensure_aw'
                c['aw']['dur'] = rng.choice([0.0, 1.0, 2.0])
            sc['stop_at'] = max(c['start'] + c['aw']['dur'] for c in callers) + 2.0
        out.append(sc)
    return out


def stall_sweep(tier):
    """Fixed programs; each thread in turn (callers, the main thread, the first pool threads) is descheduled for a
    while at its k-th source line of the cross-loop helpers, for every k."""
    def caller(c, start=0.0, dur=1.0, kind='coro', out='val'):
        return {'c': c, 'thr': 'C%d' % c, 'start': start, 'fn': 'ensure_aw', 'to': 'T',
                'aw': {'kind': kind, 'out': out, 'exccls': 'runtime', 'dur': dur}}
    bases = [
        {'target': 'lit', 'callers': [caller(1), caller(2, 0.0, 0.0, 'coro', 'exc')], 'stop_at': 0.0},
        {'target': 'idle', 'callers': [caller(1, 0.0, 1.0, 'task')], 'stop_at': 0.0},
        {'target': 'idle_then_lit', 'callers': [caller(1, 0.0, 2.0)], 'stop_at': 5.0, 'lit_at': 0.5},
        {'target': 'closed', 'callers': [caller(1, 0.0, 0.0), caller(2, 0.0, 0.0, 'donefut')], 'stop_at': 0.0},
    ]
    out = []
    for b in bases:
        thrs = ['M'] + [cs['thr'] for cs in b['callers']] + ['P1-1', 'P1-2']
        for thr in thrs:
            for k in range(1, 26 if tier == 'quick' else 61):
                sc = dict(b, callers=[dict(cs, aw=dict(cs['aw'])) for cs in b['callers']])
                sc['stalls'] = {thr: [k, 1.5]}
                sc['strategy'] = {'kind': 'replay', 'prefix': []}
                out.append(sc)
    return out


def peer_target(rng):
    """The target is *another caller's own loop*, running natively in that caller's thread (no helper started it, so
    nobody holds the helpers' per-loop lock): C1 awaits a long coroutine on its own loop, C2 (and C3) target C1's
    loop meanwhile."""
    out = []
    for n_peers in (1, 2):
        for start in (0.0, 1.0):
            for fn in ('ensure_aw', 'run_aw_threadsafe'):
                for outc in ('val', 'exc'):
                    for dur in (0.0, 2.0):
                        callers = [{'c': 1, 'thr': 'C1', 'start': 0.0, 'fn': 'ensure_aw', 'to': 'own',
                                    'aw': {'kind': 'coro', 'out': 'val', 'dur': 8.0}}]
                        for i in range(n_peers):
                            callers.append({'c': i + 2, 'thr': 'C%d' % (i + 2), 'start': start + i * 0.5, 'fn': fn, 'to': 'C1',
                                            'aw': {'kind': 'coro', 'out': outc, 'exccls': 'runtime', 'dur': dur}})
                        for st in ({'kind': 'replay', 'prefix': []}, strat(rng)):
                            out.append({'target': 'idle', 'callers': [dict(c, aw=dict(c['aw'])) for c in callers],
                                        'stop_at': 0.0, 'strategy': st})
    return out


def nontrivial(sc, r):
    return sum(1 for c in sc['callers'] if c['to'] != 'own') >= 1


def known_match(k, clause, idx, sc, r):
    """D7: several callers target the same *idle* loop concurrently; one of them sees the loop running
    under another caller's temporary run_until_complete, submits thread-safely, and is stranded."""
    if k.get('signature') == 'idle-target-concurrent-ensure_aw':
        if not (clause == 'C17_Completes' and sc.get('target') == 'idle'
                and sum(1 for c in sc['callers'] if c['to'] == 'T') >= 2):
            return False
        # the stranded call was submitted thread-safely and simply never runs: at the dead end only caller
        # threads are stuck (waiting for their futures) - no pool thread is blocked on a lock, nothing spins
        hangs = [e for e in r['events'] if e['e'] == 'Hang']
        return bool(hangs) and hangs[-1].get('why') == 'idle' and all(t.startswith('C') for t in hangs[-1].get('thr', []))
    return False


def run(ctx):
    rng = random.Random(ctx.seed * 19 + 17)
    from harness.components import crossloopmodel
    crossloopmodel.model_check(ctx)
    n = 3000 if ctx.tier == 'quick' else 60000
    executed = []
    for off in range(0, n, 6000):
        out = ctx.run_and_validate(DRIVER, COMP, TRACE, gen(rng, min(6000, n - off)), 'callers',
                                   nontrivial=nontrivial, known_match=known_match)
        if len(executed) < 6000:
            executed.extend(out)
    ctx.run_and_validate(DRIVER, COMP, TRACE, stall_sweep(ctx.tier), 'stall_sweep', nontrivial=nontrivial,
                         known_match=known_match)
    ctx.run_and_validate(DRIVER, COMP, TRACE, peer_target(rng), 'peer_target', known_match=known_match)
    # programs in the scope of CrossLoop.tla (every caller ensure_aw(coroutine, T)) for the conformance sample
    extra = gen(rng, 300, modes=('idle', 'lit', 'closed'))
    for sc in extra:
        for cs in sc['callers']:
            cs['to'] = 'T'
            cs['fn'] = 'ensure_aw'
            cs['aw']['kind'] = 'coro'
    executed.extend(ctx.run_and_validate(DRIVER, COMP, TRACE, extra, 'callers_model_scope',
                                         nontrivial=nontrivial, known_match=known_match))
    # implementation conformance: a sample of the recorded executions against CrossLoop.tla itself
    crossloopmodel.conformance(ctx, executed, limit=32 if ctx.tier == 'quick' else 400)
    return ctx.finish(
        rule='1..3 caller threads (each with its own loop) targeting one loop that is idle / run by loop_in_thread / '
             'closed / the caller\'s own; awaitables = coroutine, task, future that return / raise / sleep {0,1,2} s; '
             'ensure_aw and run_aw_threadsafe; seeded random/PCT line-level schedules; distinct = distinct observable '
             'traces; non-trivial = at least one call crosses loops')
