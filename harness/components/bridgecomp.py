"""C16: iterator bridges."""
import random
import itertools

DRIVER = 'harness.drivers.bridge'
COMP = 'bridge'
TRACE = 'BridgeTrace'
CODES = ['n', 'z', 'e', 'f', 'l', 'a', 'b', 'o', 't', 'a', 'n', 'w']


def strat(rng):
    r = rng.random()
    if r < 0.35:
        return {'kind': 'random', 'seed': rng.randrange(1 << 30), 'stick': rng.choice([0.0, 0.5, 0.9])}
    if r < 0.85:
        return {'kind': 'pct', 'seed': rng.randrange(1 << 30), 'depth': rng.choice([1, 2, 3]), 'est_len': 120}
    return {'kind': 'replay', 'prefix': []}


def systematic():
    """Every source length 0..6, a failure at every position or none, each source kind."""
    out = []
    for which, kinds in (('to_async', ['list', 'tuple', 'range', 'gen', 'iter', 'map', 'cls']), ('to_sync', ['agen'])):
        for kind in kinds:
            for n in range(0, 7):
                for fail_at in [None] + list(range(0, n + 1)):
                    if kind in ('list', 'tuple', 'range') and fail_at is not None:
                        continue
                    xs = [CODES[(i * 3 + n) % len(CODES)] for i in range(n)]
                    out.append({'which': which, 'src': {'kind': kind, 'xs': xs, 'fail_at': fail_at,
                                                        'exccls': ['plain', 'runtime', 'lookup', 'timeout'][(n + (fail_at or 0)) % 4]},
                                'strategy': {'kind': 'replay', 'prefix': []}})
                    if which == 'to_sync' and n in (0, 2, 5):
                        for own in ('fresh', 'reused'):
                            out.append({'which': which, 'src': {'kind': kind, 'xs': xs, 'fail_at': fail_at},
                                        'own_loop': own, 'strategy': {'kind': 'replay', 'prefix': []}})
    # an element that compares equal to anything, at every position; a second bridge used in mid-iteration
    for which, kinds in (('to_async', ['list', 'gen', 'iter']), ('to_sync', ['agen'])):
        for kind in kinds:
            for xs in (['w'], ['w', 'a'], ['a', 'w', 'b'], ['a', 'n', 'w']):
                for fail_at in ([None] if kind == 'list' else [None, len(xs)]):
                    out.append({'which': which, 'src': {'kind': kind, 'xs': xs, 'fail_at': fail_at},
                                'strategy': {'kind': 'replay', 'prefix': []}})
            for xs in (['a'], ['a', 'n', 'b']):
                for fail_at in ([None] if kind == 'list' else [None, 1]):
                    for delay in (0.0, 1.0):
                        out.append({'which': which, 'src': {'kind': kind, 'xs': xs, 'fail_at': fail_at, 'steps': [delay] * len(xs)},
                                    'twin': True, 'strategy': {'kind': 'replay', 'prefix': []}})
    return out


def gen(rng, n):
    out = []
    for _ in range(n):
        which = rng.choice(['to_async', 'to_async', 'to_sync'])
        kind = 'agen' if which == 'to_sync' else rng.choice(['gen', 'iter', 'map', 'cls', 'gen', 'list', 'range'])
        ln = rng.randint(0, 6)
        xs = [rng.choice(CODES) for _ in range(ln)]
        fail_at = None
        steps = []
        if kind not in ('list', 'tuple', 'range'):
            fail_at = rng.choice([None, None] + list(range(0, ln + 1)))
            if rng.random() < 0.6:
                steps = [rng.choice([0.0, 0.0, 1.0, 2.0, 4.0]) for _ in range(ln)]
        sc = {'which': which, 'src': {'kind': kind, 'xs': xs, 'fail_at': fail_at, 'steps': steps,
                                      'exccls': rng.choice(['plain', 'runtime', 'lookup', 'timeout'])},
              'consume_delay': rng.choice([0.0, 0.0, 0.0, 1.0, 3.0]), 'strategy': strat(rng)}
        if which == 'to_sync' and rng.random() < 0.3:
            sc['own_loop'] = rng.choice(['fresh', 'reused'])
        if rng.random() < 0.15:
            sc['twin'] = True      # a second bridge is opened and consumed after the first element of this one
        if which == 'to_sync' and rng.random() < 0.4:      # the consuming thread is descheduled for a while in the middle of a step
            sc['stalls'] = {'L1': [rng.randint(1, 30), rng.choice([0.5, 1.0, 3.0, 6.0])]}
        out.append(sc)
    return out


def stall_sweep(tier):
    """to_sync_iter: the consuming thread and the worker thread in turn are descheduled for a while at their k-th
    source line of the bridge, for every k; to_async_iter: the worker thread only (the consumer is the event loop)."""
    out = []
    for which, kind, thrs in (('to_sync', 'agen', ['L1', 'P1-1', 'P2-1']), ('to_async', 'gen', ['P1-1', 'P2-1'])):
        for fail_at in (None, 2, 4):
            for thr in thrs:
                for k in range(1, 31 if tier == 'quick' else 71):
                    out.append({'which': which, 'src': {'kind': kind, 'xs': ['a', 'n', 'z', 'b'], 'fail_at': fail_at,
                                                        'exccls': 'runtime'},
                                'stalls': {thr: [k, 3.0]}, 'strategy': {'kind': 'replay', 'prefix': []}})
    return out


def nontrivial(sc, r):
    return len(sc['src']['xs']) >= 1


def known_match(k, clause, idx, sc, r):
    return False


def run(ctx):
    rng = random.Random(ctx.seed * 17 + 16)
    from harness.components import bridgemodel
    bridgemodel.model_check(ctx)
    executed = list(ctx.run_and_validate(DRIVER, COMP, TRACE, systematic(), 'systematic', nontrivial=nontrivial,
                                         known_match=known_match))
    executed.extend(ctx.run_and_validate(DRIVER, COMP, TRACE, stall_sweep(ctx.tier), 'stall_sweep', nontrivial=nontrivial,
                                         known_match=known_match))
    n = 2500 if ctx.tier == 'quick' else 50000
    for off in range(0, n, 6000):
        out = ctx.run_and_validate(DRIVER, COMP, TRACE, gen(rng, min(6000, n - off)), 'scheduled',
                                   nontrivial=nontrivial, known_match=known_match)
        if len(executed) < 8000:
            executed.extend(out)
    # implementation conformance: a sample of the recorded executions against IterBridge.tla itself
    bridgemodel.conformance(ctx, executed, limit=32 if ctx.tier == 'quick' else 400)
    return ctx.finish(
        rule='sources of length 0..6 (list, tuple, range, generator, iterator, map object, __next__ class, async '
             'generator) over values incl. None / duplicates / falsy, a failure at every position or none, producer '
             'step durations from {0,1,2,4} s and consumer delays, executed under seeded random/PCT line-level '
             'schedules of the producer thread against the consuming loop; distinct = distinct observable traces; '
             'non-trivial = non-empty source')
