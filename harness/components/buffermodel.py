"""Model side of the buffer checks (Buffer.tla)."""


def model_check(ctx):
    pass
