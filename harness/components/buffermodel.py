"""Model side of the buffer checks: exhaustive TLC runs of specs/buffer/Buffer.tla (timed, with the
contract monitor BufferContract composed in)."""

ACTIONS = ['Submit', 'PFirst', 'PDrain', 'PGot', 'StartFunc', 'EndFunc', 'PCheck', 'Tick']
WAITS = ['WaitCall', 'WaitJoin', 'WaitKick', 'WaitRet']

PLAN = {
    'C03': {'quick': [('BUF_3_d0', None), ('BUF_3_d3_f1', None), ('BUF_3_foreign', None), ('W_D10', 'Inv_C03')],
            'thorough': [('BUF_3_d0', None), ('BUF_3_d3_f1', None), ('BUF_4_d3_f1', None), ('BUF_3_foreign', None),
                         ('W_D10', 'Inv_C03')]},
    'C07': {'quick': [('BUF_3_wT', None), ('BUF_2_wTF_f1', None), ('W_NeverFlush', 'NeverFlush')],
            'thorough': [('BUF_3_wT', None), ('BUF_4_wT', None), ('BUF_2_wTF_f1', None), ('W_NeverFlush', 'NeverFlush')]},
    'C08': {'quick': [('BUF_3_d0', None), ('BUF_3_d3_f1', None), ('W_NeverBurst', 'NeverBurst'), ('W_NeverTwoCalls', 'NeverTwoCalls')],
            'thorough': [('BUF_3_d0', None), ('BUF_3_d3_f1', None), ('BUF_4_d3_f1', None), ('BUF_4_wT', None),
                         ('W_NeverBurst', 'NeverBurst'), ('W_NeverTwoCalls', 'NeverTwoCalls')]},
}


def model_check(ctx):
    for cfg, expect in PLAN[ctx.prop][ctx.tier]:
        if expect:
            ctx.mc('buffer', 'MC_Buffer', cfg + '.cfg', expect_violation=expect, timeout=300)
        else:
            ctx.mc('buffer', 'MC_Buffer', cfg + '.cfg', timeout=1800,
                   require_actions=ACTIONS + (WAITS if '_w' in cfg else []))
