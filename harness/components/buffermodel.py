"""Model side of the buffer checks: exhaustive TLC runs of specs/buffer/Buffer.tla (timed, with the
contract monitor BufferContract composed in)."""

ACTIONS = ['Submit', 'PutLands', 'PFirst', 'PDrain', 'LoaderDone', 'PLoaded', 'GetTimeout', 'StartFunc', 'EndFunc', 'PCheck', 'Tick']
WAITS = ['WaitCall', 'WaitJoin', 'WaitKick', 'WaitRet']

PLAN = {
    'C03': {'quick': [('BUF_3_d0', None), ('BUF_3_d3_f1', None), ('BUF_3_foreign', None), ('BUF_3_acf', None),
                      ('BUF_3_eaa_f1', None), ('W_D10', 'Inv_C03'), ('W_NeverSlowLoad', 'NeverSlowLoad')],
            'thorough': [('BUF_3_d0', None), ('BUF_3_d3_f1', None), ('BUF_4_d3_f1', None), ('BUF_3_foreign', None),
                         ('BUF_3_acf', None), ('BUF_3_cae', None), ('BUF_3_eaa_f1', None),
                         ('W_D10', 'Inv_C03'), ('W_NeverSlowLoad', 'NeverSlowLoad')]},
    'C07': {'quick': [('BUF_3_wT', None), ('BUF_2_wTF_f1', None), ('BUF_3_aaa_wT', None), ('BUF_3_cae_wF', None),
                      ('BUF_3_shutdown', None), ('W_NeverFlush', 'NeverFlush'), ('W_D3', 'ShutdownTerminates')],
            'thorough': [('BUF_3_wT', None), ('BUF_4_wT', None), ('BUF_2_wTF_f1', None), ('BUF_3_aaa_wT', None),
                         ('BUF_3_cae_wF', None), ('BUF_3_shutdown', None), ('BUF_3_acf_shutdown', None),
                         ('W_NeverFlush', 'NeverFlush'), ('W_D3', 'ShutdownTerminates')]},
    'C08': {'quick': [('BUF_3_d0', None), ('BUF_3_d3_f1', None), ('W_NeverBurst', 'NeverBurst'), ('W_NeverTwoCalls', 'NeverTwoCalls')],
            'thorough': [('BUF_3_d0', None), ('BUF_3_d3_f1', None), ('BUF_4_d3_f1', None), ('BUF_4_wT', None),
                         ('W_NeverBurst', 'NeverBurst'), ('W_NeverTwoCalls', 'NeverTwoCalls')]},
}


def model_check(ctx):
    for cfg, expect in PLAN[ctx.prop][ctx.tier]:
        if expect:
            ctx.mc('buffer', 'MC_Buffer', cfg + '.cfg', expect_violation=expect, timeout=300)
        else:
            ctx.mc('buffer', 'MC_Buffer', cfg + '.cfg', timeout=1800,
                   require_actions=ACTIONS + (WAITS if '_w' in cfg else [])
                   + (['ShutdownReq', 'ShutdownEffect'] if 'shutdown' in cfg else []))


# ---------------------------------------------------------------------------------------------
# implementation conformance (code -> spec): recorded executions against Buffer.tla
import json as _json
import os as _os
import re as _re
import shutil as _shutil
from concurrent.futures import ThreadPoolExecutor as _TPE

UNIT = 500


def _prep(sc, r):
    if sc.get('foreign') or sc.get('stalls') or str(sc.get('form', 'direct')).startswith('default'):
        return None
    prog = sc.get('prog', [])
    def in_scope(it):
        if it.get('submit_first'):
            return False
        if it['op'] in ('call', 'wait', 'shutdown'):
            return True
        if it['op'] == 'await':       # an awaitable: result (or failure) after a delay on the grid
            return it.get('fail') in (None, False, True) and not (it.get('delay', 0) * 1000) % UNIT
        if it['op'] == 'map':         # map of an empty list
            return it.get('kind', 'list') == 'list' and not it['xs'] and it.get('fail_at') is None and not it.get('step')
        return False
    if not all(in_scope(it) for it in prog):
        return None
    func = sc.get('func', {})
    if func.get('durs') or func.get('fail_cancel') or (sc['timeout'] * 1000) % UNIT or (func.get('dur', 0) * 1000) % UNIT:
        return None
    calls = [it for it in prog if it['op'] not in ('wait', 'shutdown')]
    has_shutdown = any(it['op'] == 'shutdown' for it in prog)
    if has_shutdown:       # (operations scheduled at or after the shutdown instant still fire while the loop drains: out of the model)
        ts = [it['at'] for it in prog if it['op'] == 'shutdown'][0]
        if any(it['at'] >= ts for it in prog if it['op'] != 'shutdown'):
            return None
    waits = [it for it in prog if it['op'] == 'wait']
    byid = {it['id']: it for it in calls}
    if not calls or len(calls) > 5 or len(waits) > 2:
        return None
    # the model numbers the arguments 1..N in submission order and the waits 1..W
    order = [e['id'] for e in r['events'] if e['e'] == 'Submit']
    idmap = {sid: i + 1 for i, sid in enumerate(order)}
    xmap = {}
    wmap = {}
    ev = []
    for e in r['events']:
        if e['e'] in ('Tick', 'Config', 'End', 'Quiescent'):
            continue
        if e['e'] in ('Shutdown', 'ShutdownDone') and not has_shutdown:
            continue         # (the harness closes every loop after the program: not part of the program)
        if 'st' not in e or e['t'] % UNIT:
            return None
        d = {k: v for k, v in e.items() if k != 'n' or e['e'] in ('FuncStart', 'FuncEnd')}
        d['t'] = e['t'] // UNIT
        if e['e'] in ('Submit', 'Produced', 'ProducerDone', 'ProducerFailed'):
            d['id'] = idmap[e['id']]
            if e['e'] == 'Produced':
                xmap[e['x']] = d['id']
                d['x'] = d['id']
        elif e['e'] == 'FuncStart':
            d['S'] = sorted(xmap.get(x, x) for x in e['S'])
        elif e['e'] in ('WaitCall', 'WaitRet'):
            if e['e'] == 'WaitCall':
                wmap[e['w']] = len(wmap) + 1
            d['w'] = wmap.get(e['w'], 0)
        ev.append(d)
    cancel = {}
    for e in ev:
        if e['e'] == 'WaitCall':
            cancel[e['w']] = bool(e['cancel'])
    kinds, loads = {}, {}
    for sid, i in idmap.items():
        it = byid[sid]
        kinds[i] = {'call': 'call', 'map': 'empty'}.get(it['op']) or ('afail' if it.get('fail') else 'await')
        loads[i] = int(round(it.get('delay', 0) * 1000)) // UNIT if it['op'] == 'await' else 0
    return {'events': ev, 'n': len(order), 'cancel': cancel, 'kinds': kinds, 'loads': loads,
            'shutdown': any(it['op'] == 'shutdown' for it in prog),
            'consts': {'TAU': int(sc['timeout'] * 1000) // UNIT, 'Dur': int(func.get('dur', 0) * 1000) // UNIT,
                       'FailSet': sorted(func.get('fail', [])),
                       'MaxTime': max([e['t'] for e in ev if e['e'] in ('Submit', 'WaitCall')] + [0])}}


def _one(p):
    from harness import tlc
    c = p['consts']
    cancel = ' @@ '.join('(%d :> %s)' % (w, 'TRUE' if v else 'FALSE') for w, v in sorted(p['cancel'].items())) or '[w \\in {} |-> TRUE]'
    kinds = ' @@ '.join('(%d :> "%s")' % (i, k) for i, k in sorted(p['kinds'].items()))
    loads = ' @@ '.join('(%d :> %d)' % (i, k) for i, k in sorted(p['loads'].items()))
    mod = ('---- MODULE MC_BufferConform ----\nEXTENDS BufferConform\nCElems == 1..%d\nCWaits == %s\nCCancel == %s\nCFail == {%s}\n'
           'CKinds == %s\nCLoads == %s\n====\n'
           % (p['n'], '{' + ', '.join(str(w) for w in sorted(p['cancel'])) + '}', cancel, ', '.join(str(x) for x in c['FailSet']),
              kinds, loads))
    cfg = ('INIT CInit\nNEXT CNext\nCONSTANTS\n Elems <- CElems\n TAU = %d\n Dur = %d\n FailSet <- CFail\n MaxTime = %d\n Waits <- CWaits\n CancelOf <- CCancel\n'
           ' Foreign = FALSE\n ClearInputs = TRUE\n KindOf <- CKinds\n LoadOf <- CLoads\n Shutdowns = %s\n CancelAware = TRUE\nCONSTRAINT Reached\nCONSTRAINT NotYetAccepted\nCHECK_DEADLOCK FALSE\n' % (c['TAU'], c['Dur'], c['MaxTime'], 'TRUE' if p.get('shutdown') else 'FALSE'))
    work = tlc.scratch('bufconf-')
    try:
        tf = _os.path.join(work, 'trace.json')
        with open(tf, 'w') as f:
            _json.dump(p['events'], f)
        out, dt, rc = tlc.run_tlc('buffer', 'MC_BufferConform', 'MC_BufferConform.cfg', workers=1,
                                  timeout=int(_os.environ.get('CONF_TIMEOUT', '90')), env={'TRACE_FILE': tf},
                                  cfg_text=cfg, extra_files={'MC_BufferConform.tla': mod},
                                  jvm=['-Dtlc2.tool.queue.IStateQueue=StateDeque'], heap='1g')
    finally:
        _shutil.rmtree(work, ignore_errors=True)
    r = tlc.parse_mc(out)
    best = 1
    for m in _re.finditer(r'<< ?"REACHED", 1, (\d+), (\d+) ?>>', _re.sub(r'\s+', ' ', out)):
        best = max(best, int(m.group(1)))
    err = r['error']
    return best, len(p['events']) + 1, err, r['distinct'], r['generated'], (out[out.find('Error:'):][:1500] if err and err != 'timeout' else '')


def _ends(lst, k):
    """k elements of a list sorted by length: alternately the shortest and the longest ones."""
    lst = list(lst)
    out = []
    while lst and len(out) < k:
        out.append(lst.pop(0))
        if lst and len(out) < k:
            out.append(lst.pop())
    return out


def conformance(ctx, executed, limit=40):
    todo = []
    for sc, r, v in executed:
        if r.get('status') != 'ok' or any(x is not None for x in v.values()):
            continue
        p = _prep(sc, r)
        if p is not None and len(p['events']) <= 60:
            todo.append(p)
    # half of the sample: programs with producers other than plain calls (shortest first within each class)
    todo.sort(key=lambda p: len(p['events']))
    c = [p for p in todo if p.get('shutdown')]
    a = [p for p in todo if set(p['kinds'].values()) != {'call'} and not p.get('shutdown')]
    b = [p for p in todo if set(p['kinds'].values()) == {'call'} and not p.get('shutdown')]
    nc = min(len(c), limit // 4)
    na = min(len(a), max((limit - nc) // 2, limit - nc - len(b)))
    todo = _ends(c, nc) + _ends(a, na) + _ends(b, limit - nc - na)
    acc = und = 0
    drift = []
    with _TPE(8) as ex:
        for p, (best, n, err, ds, gen, tail) in zip(todo, ex.map(_one, todo)):
            ctx.cov['states'] += ds
            ctx.cov['transitions'] += gen
            if best >= n:
                acc += 1
            elif err == 'timeout':
                und += 1
            elif err:
                ctx.notes.append('buffer conformance: TLC error: %s' % (tail[:700],))
                und += 1
            else:
                drift.append({'matched_prefix': best - 1, 'of': n - 1, 'first_unexplained': p['events'][best - 1]})
    ctx.cov['conformance'] = {'traces_checked': len(todo), 'accepted': acc, 'drift': len(drift), 'undecided': und,
                              'drift_samples': drift[:3],
                              'what': 'recorded executions (plain calls, awaitables with a delay / failing, empty maps, wait() on the loop thread, loop shutdown) validated against the timed model '
                                      'Buffer.tla with silent processing steps; projected state (queue length, all-processed flag) compared '
                                      'at every observable event'}
    ctx.cov['conformance_divergences'] = len(drift)
    return len(todo), acc, drift
