"""Model side of the bridge check: exhaustive TLC runs of specs/bridge/IterBridge.tla."""


def model_check(ctx):
    for f in ('-1', '0', '1', '2', '3'):
        ctx.mc('bridge', 'MC_IterBridge', 'IB_3_f%s.cfg' % f, timeout=300)
    ctx.mc('bridge', 'MC_IterBridge', 'W_result.cfg', expect_violation='ErrorAfterN', timeout=300)
    ctx.mc('bridge', 'MC_IterBridge', 'W_leak.cfg', expect_violation='NeverLeaked', timeout=300)
