"""Model side of the bridge check (IterBridge.tla)."""


def model_check(ctx):
    pass
