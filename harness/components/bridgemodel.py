"""Model side of the bridge check: exhaustive TLC runs of specs/bridge/IterBridge.tla."""


def model_check(ctx):
    for f in ('-1', '0', '1', '2', '3'):
        ctx.mc('bridge', 'MC_IterBridge', 'IB_3_f%s.cfg' % f, timeout=300)
    for f in (('-1', '3', '6') if ctx.tier == 'quick' else ('-1', '0', '1', '2', '3', '4', '5', '6')):
        ctx.mc('bridge', 'MC_IterBridge', 'IB_6_f%s.cfg' % f, timeout=600)
    ctx.mc('bridge', 'MC_IterBridge', 'W_result.cfg', expect_violation='ErrorAfterN', timeout=300)
    ctx.mc('bridge', 'MC_IterBridge', 'W_leak.cfg', expect_violation='NeverLeaked', timeout=300)


# ---------------------------------------------------------------------------------------------
# implementation conformance (code -> spec): recorded executions against IterBridge.tla
import json as _json
import os as _os
import re as _re
import shutil as _shutil
from concurrent.futures import ThreadPoolExecutor as _TPE

_KEEP = ('Produce', 'SrcFail', 'SrcEnd', 'Got', 'Stop', 'GotExc', 'Threads')


def _prep(sc, r):
    if sc.get('twin'):
        return None                      # (the second bridge's worker would show up in the `alive` counts)
    ev = []
    for e in r['events']:
        k = e['e']
        if k not in _KEEP:
            continue
        d = {'e': k, 'alive': e.get('alive', 0)}
        if 'j' in e:
            d['j'] = e['j']
        if k == 'GotExc':
            d['exctype'] = e.get('exctype', '')
        ev.append(d)
    if not any(d['e'] in ('SrcFail', 'SrcEnd') for d in ev):
        return None                      # the source is not instrumented (list / range / plain iterator)
    fa = sc['src'].get('fail_at')
    return {'events': ev, 'n': len(sc['src']['xs']), 'fail_at': -1 if fa is None else fa, 'which': sc['which']}


def _one(p):
    from harness import tlc
    mod = '---- MODULE MC_IterBridgeConform ----\nEXTENDS IterBridgeConform\nCFailAt == %d\n====\n' % p['fail_at']
    cfg = ('INIT CInit\nNEXT CNext\nCONSTANTS\n N = %d\n FailAt <- CFailAt\n AwaitFuture = TRUE\n JoinPool = TRUE\n'
           'CONSTRAINT Reached\nCONSTRAINT NotYetAccepted\nCHECK_DEADLOCK FALSE\n' % p['n'])
    work = tlc.scratch('ibconf-')
    try:
        tf = _os.path.join(work, 'trace.json')
        with open(tf, 'w') as f:
            _json.dump(p['events'], f)
        out, dt, rc = tlc.run_tlc('bridge', 'MC_IterBridgeConform', 'MC_IterBridgeConform.cfg', workers=1,
                                  timeout=int(_os.environ.get('CONF_TIMEOUT', '90')), env={'TRACE_FILE': tf},
                                  cfg_text=cfg, extra_files={'MC_IterBridgeConform.tla': mod}, jvm=['-Dtlc2.tool.queue.IStateQueue=StateDeque'], heap='1g')
    finally:
        _shutil.rmtree(work, ignore_errors=True)
    r = tlc.parse_mc(out)
    best = 1
    for m in _re.finditer(r'<< ?"REACHED", 1, (\d+), (\d+) ?>>', _re.sub(r'\s+', ' ', out)):
        best = max(best, int(m.group(1)))
    err = r['error']
    return best, len(p['events']) + 1, err, r['distinct'], r['generated'], (out[out.find('Error:'):][:900] if err and err != 'timeout' else '')


def conformance(ctx, executed, limit=30):
    classes = {}
    seen = set()
    for sc, r, v in executed:
        if r.get('status') != 'ok' or any(x is not None for x in v.values()):
            continue
        p = _prep(sc, r)
        if p is None or not (2 <= len(p['events']) <= 40):
            continue
        key = _json.dumps(p, sort_keys=True)
        if key in seen:
            continue
        seen.add(key)
        classes.setdefault((p['which'], p['fail_at'] >= 0), []).append(p)
    for v in classes.values():
        v.sort(key=lambda p: -len(p['events']))
    picked = []
    while len(picked) < limit and any(classes.values()):
        for k in sorted(classes):
            if classes[k] and len(picked) < limit:
                picked.append(classes[k].pop(0))
    acc = und = 0
    drift = []
    with _TPE(8) as ex:
        for p, (best, n, err, ds, gen, tail) in zip(picked, ex.map(_one, picked)):
            ctx.cov['states'] += ds
            ctx.cov['transitions'] += gen
            if best >= n:
                acc += 1
            elif err == 'timeout':
                und += 1
            elif err:
                ctx.notes.append('bridge conformance: TLC error: %s' % (tail,))
                und += 1
            else:
                drift.append({'matched_prefix': best - 1, 'of': n - 1, 'which': p['which'], 'n': p['n'], 'fail_at': p['fail_at'],
                              'first_unexplained': p['events'][best - 1], 'events': p['events'][:best]})
    ctx.cov['conformance'] = {'traces_checked': len(picked), 'accepted': acc, 'drift': len(drift), 'undecided': und,
                              'drift_samples': drift[:3],
                              'what': 'recorded executions of to_async_iter / to_sync_iter validated against IterBridge.tla: source '
                                      'hands out / raises / ends in the producer thread, consumer receives, end of iteration, thread '
                                      'census; sentinel, future completion, bubble, pool shutdown silent; projected state (produced, '
                                      'received, worker alive) compared at every observable point'}
    ctx.cov['conformance_divergences'] = len(drift)
    return len(picked), acc, drift
