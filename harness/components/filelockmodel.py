"""Model side of the file-lock checks: exhaustive TLC runs of specs/filelock/FileLock.tla."""

ACTIONS = ['Start', 'TLAcquire', 'IncCounter', 'OsOpen', 'OsLock', 'SetFd', 'CloseFail', 'Check', 'Cleanup',
           'Acquired', 'Leave', 'RelCheck', 'RelDecide', 'OsUnlock', 'OsClose', 'TLRelease', 'RelDone']

PLAN = {
    'C02': {'quick': [('FL_shared2_re', None), ('FL_own2', None), ('FL_procs2_crash', None),
                      ('W_contended', 'NeverContended'), ('W_nested', 'NeverNested')],
            'thorough': [('FL_shared2_re', None), ('FL_own2', None), ('FL_procs2_crash', None), ('FL_mix3_crash', None),
                         ('FL_three3_crash', None), ('W_contended', 'NeverContended'), ('W_nested', 'NeverNested')]},
    'C12': {'quick': [('FL_shared2', None), ('FL_live_shared2', None), ('W_nested', 'NeverNested')],
            'thorough': [('FL_shared2', None), ('FL_shared2_re', None), ('FL_own2', None), ('FL_live_shared2', None),
                         ('W_nested', 'NeverNested')]},
    'C13': {'quick': [('FL_procs2_crash', None), ('FL_live_mix3', None), ('W_contended', 'NeverContended')],
            'thorough': [('FL_procs2_crash', None), ('FL_live_mix3', None), ('FL_mix3_crash', None),
                         ('FL_three3_crash', None), ('W_contended', 'NeverContended')]},
}


def model_check(ctx):
    for cfg, expect in PLAN[ctx.prop][ctx.tier]:
        if expect:
            ctx.mc('filelock', 'MC_FileLock', cfg + '.cfg', expect_violation=expect, timeout=300)
        else:
            ctx.mc('filelock', 'MC_FileLock', cfg + '.cfg', timeout=1800,
                   require_actions=[a for a in ACTIONS if not (a == 'CloseFail' and cfg == 'FL_shared2')])
