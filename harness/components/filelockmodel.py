"""Model side of the file-lock checks (FileLock.tla)."""


def model_check(ctx):
    pass
