"""Model side of the file-lock checks: exhaustive TLC runs of specs/filelock/FileLock.tla."""

ACTIONS = ['Start', 'Refused', 'TLAcquire', 'IncCounter', 'OsOpen', 'OsLock', 'SetFd', 'CloseFail', 'Check', 'Cleanup',
           'Acquired', 'Leave', 'RelCheck', 'RelDecide', 'OsUnlock', 'OsClose', 'TLRelease', 'RelDone']

PLAN = {
    'C02': {'quick': [('FL_shared2_re', None), ('FL_own2', None), ('FL_procs2_crash', None),
                      ('W_contended', 'NeverContended'), ('W_nested', 'NeverNested')],
            'thorough': [('FL_shared2_re', None), ('FL_own2', None), ('FL_procs2_crash', None), ('FL_mix3_crash', None),
                         ('FL_three3_crash', None), ('W_contended', 'NeverContended'), ('W_nested', 'NeverNested')]},
    'C12': {'quick': [('FL_shared2', None), ('FL_live_shared2', None), ('W_nested', 'NeverNested')],
            'thorough': [('FL_shared2', None), ('FL_shared2_re', None), ('FL_own2', None), ('FL_live_shared2', None),
                         ('W_nested', 'NeverNested')]},
    'C13': {'quick': [('FL_procs2_crash', None), ('FL_live_mix3', None), ('W_contended', 'NeverContended')],
            'thorough': [('FL_procs2_crash', None), ('FL_live_mix3', None), ('FL_mix3_crash', None),
                         ('FL_three3_crash', None), ('W_contended', 'NeverContended')]},
}


def model_check(ctx):
    for cfg, expect in PLAN[ctx.prop][ctx.tier]:
        if expect:
            ctx.mc('filelock', 'MC_FileLock', cfg + '.cfg', expect_violation=expect, timeout=300)
        else:
            ctx.mc('filelock', 'MC_FileLock', cfg + '.cfg', timeout=1800,
                   require_actions=[a for a in ACTIONS if not (a == 'CloseFail' and cfg == 'FL_shared2')])


# ---------------------------------------------------------------------------------------------
# implementation conformance (code -> spec): recorded executions against FileLock.tla
import json as _json
import os as _os
import re as _re
import shutil as _shutil
from concurrent.futures import ThreadPoolExecutor as _TPE


def _mode(form, blocking, timeout, deft):
    if form == 'with':
        return 'block' if deft < 0 else 'timed'
    if timeout == -2:
        if not blocking:
            return 'nb'
        return 'block' if deft < 0 else 'timed'
    if timeout < 0:
        return 'block' if blocking else 'nb'
    return 'timed'


def _prep(sc, r):
    if sc.get('mode') != 'conc' or sc.get('opcodes'):
        return None
    if any(rd.get('nest') for rounds in sc['threads'].values() for rd in rounds):
        return None
    cfg = sc['cfg']
    thr_of = {}
    ev = []
    objs_of = {}
    for e in r['events']:
        k = e['e']
        if k in ('Config', 'Tick', 'End', 'Fault', 'Enter', 'RelCall', 'Stall', 'FinalState', 'FinalProbe'):
            continue      # (a stall is a scheduling decision; the prober acts after the last observable point)
        if k not in ('AcqCall', 'AcqRet', 'Exit', 'RelRet') or 'st' not in e:
            return None
        d = {'e': k, 'st': e['st']}
        if k == 'AcqCall':
            thr_of[e['h']] = e['thr']
            d['obj'] = 'o%d' % e['o']
            d['mode'] = _mode(e['form'], e['blocking'], e['timeout'], cfg['deftimeout'][e['o'] - 1])
            objs_of.setdefault(e['thr'], set()).add('o%d' % e['o'])
        if k == 'AcqRet':
            d['res'] = 'true' if e['res'] == 'true' else 'false'
        d['thr'] = thr_of[e['h']]
        ev.append(d)
    threads = sorted(sc['threads'])
    for t in threads:
        objs_of.setdefault(t, {'o1'})
    return {'events': ev, 'threads': threads, 'objs': ['o%d' % (i + 1) for i in range(len(cfg['reentrant']))],
            'objs_of': {t: sorted(v) for t, v in objs_of.items()},
            'rounds': max(len(v) for v in sc['threads'].values()),
            'faults': sum(1 for e in r['events'] if e['e'] == 'Fault'),
            'reentrant': bool(cfg['reentrant'][0])}


def _one(p):
    from harness import tlc
    q = lambda x: '"%s"' % x
    objof = ' @@ '.join('(%s :> {%s})' % (q(t), ', '.join(q(o) for o in p['objs_of'][t])) for t in p['threads'])
    procof = ' @@ '.join('(%s :> "p1")' % q(t) for t in p['threads'])
    mod = ('---- MODULE MC_FileLockConform ----\nEXTENDS FileLockConform\nCThreads == {%s}\nCObjs == {%s}\nCObjOf == %s\nCProcOf == %s\n====\n'
           % (', '.join(q(t) for t in p['threads']), ', '.join(q(o) for o in p['objs']), objof, procof))
    cfg = ('INIT CInit\nNEXT CNext\nCONSTANTS\n Threads <- CThreads\n Objs <- CObjs\n ObjOf <- CObjOf\n ProcOf <- CProcOf\n Reentrant = %s\n Rounds = %d\n'
           ' Crashes = FALSE\n Nest = FALSE\n Faults = %d\nCONSTRAINT Reached\nCONSTRAINT NotYetAccepted\nCHECK_DEADLOCK FALSE\n'
           % ('TRUE' if p['reentrant'] else 'FALSE', p['rounds'], p['faults']))
    work = tlc.scratch('flconf-')
    try:
        tf = _os.path.join(work, 'trace.json')
        with open(tf, 'w') as f:
            _json.dump(p['events'], f)
        out, dt, rc = tlc.run_tlc('filelock', 'MC_FileLockConform', 'MC_FileLockConform.cfg', workers=1,
                                  timeout=int(_os.environ.get('CONF_TIMEOUT', '90')), env={'TRACE_FILE': tf},
                                  cfg_text=cfg, extra_files={'MC_FileLockConform.tla': mod},
                                  jvm=['-Dtlc2.tool.queue.IStateQueue=StateDeque'], heap='1g')
    finally:
        _shutil.rmtree(work, ignore_errors=True)
    r = tlc.parse_mc(out)
    best = 1
    for m in _re.finditer(r'<< ?"REACHED", 1, (\d+), (\d+) ?>>', _re.sub(r'\s+', ' ', out)):
        best = max(best, int(m.group(1)))
    err = r['error']
    return best, len(p['events']) + 1, err, r['distinct'], r['generated'], (out[out.find('Error:'):][:900] if err and err != 'timeout' else '')


def conformance(ctx, executed, limit=40):
    todo = []
    for sc, r, v in executed:
        if r.get('status') != 'ok' or any(x is not None for x in v.values()):
            continue
        p = _prep(sc, r)
        if p is not None and 2 <= len(p['events']) <= 40 and len(p['threads']) <= 3:
            todo.append(p)
    todo.sort(key=lambda p: len(p['events']))
    todo = todo[:limit]
    acc = und = 0
    drift = []
    with _TPE(8) as ex:
        for p, (best, n, err, ds, gen, tail) in zip(todo, ex.map(_one, todo)):
            ctx.cov['states'] += ds
            ctx.cov['transitions'] += gen
            if best >= n:
                acc += 1
            elif err == 'timeout':
                und += 1
            elif err:
                ctx.notes.append('filelock conformance: TLC error: %s' % (tail,))
                und += 1
            else:
                drift.append({'matched_prefix': best - 1, 'of': n - 1, 'first_unexplained': p['events'][best - 1]})
    ctx.cov['conformance'] = {'traces_checked': len(todo), 'accepted': acc, 'drift': len(drift), 'undecided': und,
                              'drift_samples': drift[:3],
                              'what': 'recorded executions of controlled threads on the real FileLock validated against FileLock.tla: same '
                                      'observable points per contender, line-level steps silent, projected state (is_locked, counter, '
                                      'in-process lock owner of every object) compared at every observable point'}
    ctx.cov['conformance_divergences'] = len(drift)
    return len(todo), acc, drift
