"""
Driver for to_async_iter / to_sync_iter (C16).

Scenario:
 {"which": "to_async" | "to_sync",
  "src": {"kind": "list"|"tuple"|"range"|"gen"|"iter"|"map"|"cls"|"agen", "xs": [...value codes...],
          "fail_at": k | null, "steps": [d0, d1, ...]  (time the producer takes before element j)},
  "consume_delay": 0.0, "strategy": {...}, "trace": true}
Value codes are concretised by VALUES (None, duplicates, falsy values ...).
"""
import asyncio

from harness import rt, pool

_A = None
_INTERESTING = {}
FILES = None

class MatchAll:
    """an element that compares equal to everything (a "match anything" placeholder such as unittest.mock.ANY)"""
    def __eq__(self, other):
        return True

    def __ne__(self, other):
        return False

    __hash__ = None


VALUES = {'n': None, 'z': 0, 'e': '', 'f': False, 'l': [], 'a': 'a', 'b': 'b', 'o': 1, 't': (1, 2), 'w': MatchAll()}


def worker_init():
    global _A, FILES
    pool.import_aiuti()
    import aiuti.asyncio as A
    rt.patch_asyncio_module(A)
    _A = A
    FILES = pool.aiuti_files()
    global _INTERESTING
    _INTERESTING = {FILES['asyncio']: rt.interesting_lines(FILES['asyncio'])}


class SrcError(Exception):
    pass


class SrcRuntimeError(SrcError, RuntimeError):
    """the source's own exception may belong to any family"""


class SrcLookupError(SrcError, KeyError):
    pass


class SrcStopAsyncish(SrcError, TimeoutError):
    pass


EXC = {'plain': SrcError, 'runtime': SrcRuntimeError, 'lookup': SrcLookupError, 'timeout': SrcStopAsyncish}


def execute(sc):
    A = _A
    import gc
    gc.disable()
    trace = sc.get('trace', True)
    ctl = rt.install(rt.Ctl(rt.make_strategy(sc.get('strategy', {'kind': 'replay', 'prefix': []})),
                            trace_files=[FILES['asyncio']] if trace else (),
                            max_steps=sc.get('max_steps', 40000)))
    ctl.interesting = _INTERESTING
    ctl.stalls = {k: v for k, v in sc.get('stalls', {}).items()}
    asyncio.set_event_loop_policy(rt.VPolicy())
    src = sc['src']
    kind = src['kind']
    codes = list(src['xs'])
    if kind == 'range':
        objs = list(range(len(codes)))
    else:
        objs = [VALUES[c] if not isinstance(VALUES[c], list) else [] for c in codes]
    fail_at = src.get('fail_at')
    steps = src.get('steps') or []
    the_exc = EXC[src.get('exccls', 'plain')]('source failed')
    ctl.log('Config', which=sc['which'], n=len(objs), fail_at=-1 if fail_at is None else fail_at, srckind=kind)
    keep = [objs]
    pools_before = len(rt.CExecutor.all_pools)

    def step_delay(j):
        return steps[j] if j < len(steps) else 0.0

    def alive_now():
        return sum(len(p.alive_workers()) for p in rt.CExecutor.all_pools[pools_before:] if not p.module_level)

    def sync_gen():
        for j, x in enumerate(objs):
            if fail_at == j:
                ctl.log('SrcFail', j=j, alive=alive_now())
                raise the_exc
            d = step_delay(j)
            if d > 0:
                ctl.sleep(d)          # a blocking synchronous producer
            ctl.log('Produce', j=j, alive=alive_now())
            yield x
        if fail_at is not None and fail_at >= len(objs):
            ctl.log('SrcFail', j=len(objs), alive=alive_now())
            raise the_exc
        ctl.log('SrcEnd', j=len(objs), alive=alive_now())

    class Cls:
        def __init__(self):
            self.it = sync_gen()

        def __iter__(self):
            return self

        def __next__(self):
            return next(self.it)

    def make_sync_source():
        if kind in ('list', 'range'):
            return range(len(objs)) if kind == 'range' else list(objs)
        if kind == 'tuple':
            return tuple(objs)
        if kind == 'gen':
            return sync_gen()
        if kind == 'iter':
            return iter(list(objs)) if fail_at is None and not any(steps) else sync_gen()
        if kind == 'map':
            g = sync_gen()
            return map(lambda x: x, g)
        if kind == 'cls':
            return Cls()
        raise ValueError(kind)

    async def agen():
        for j, x in enumerate(objs):
            if fail_at == j:
                ctl.log('SrcFail', j=j, alive=alive_now())
                raise the_exc
            d = step_delay(j)
            if d > 0:
                await asyncio.sleep(d)
            ctl.log('Produce', j=j, alive=alive_now())
            yield x
        if fail_at is not None and fail_at >= len(objs):
            ctl.log('SrcFail', j=len(objs), alive=alive_now())
            raise the_exc
        ctl.log('SrcEnd', j=len(objs), alive=alive_now())

    def check(j, x):
        same = j < len(objs) and (x is objs[j] or (kind == 'range' and x == objs[j]))
        ctl.log('Got', j=j, same=bool(same), alive=alive_now())

    def finish():
        alive = 0
        for p in rt.CExecutor.all_pools[pools_before:]:
            if not p.module_level:
                alive += len(p.alive_workers())
        ctl.log('Threads', alive=alive)

    def async_consumer():
        loop = rt.VLoop('L1')
        keep.append(loop)
        asyncio.set_event_loop(loop)
        done = [False]

        async def ticker():
            while not done[0]:
                await asyncio.sleep(1.0)
                if not done[0]:
                    ctl.log('Beat')

        async def main():
            tk = loop.create_task(ticker())
            ctl.log('IterStart')
            j = 0
            try:
                async for x in A.to_async_iter(make_sync_source()):
                    check(j, x)
                    j += 1
                    if sc.get('twin') and j == 1:
                        # a second, independent bridge opened and consumed while the first is in mid-iteration
                        tw = []
                        try:
                            async for y in A.to_async_iter(iter(['p', 'q'])):
                                tw.append(y)
                        except BaseException as e:
                            if isinstance(e, rt.Hang):
                                raise
                            tw.append(type(e).__name__)
                        ctl.log('Twin', ok=tw == ['p', 'q'])
                    if sc.get('consume_delay', 0) > 0:
                        await asyncio.sleep(sc['consume_delay'])
            except SrcError as e:
                ctl.log('GotExc', same=e is the_exc, exctype='SrcError')
            except BaseException as e:
                if isinstance(e, rt.Hang):
                    raise
                ctl.log('GotExc', same=False, exctype=type(e).__name__)
            else:
                ctl.log('Stop')
            ctl.log('IterEnd')
            done[0] = True
            finish()
            tk.cancel()
        loop.run_until_complete(main())
        rt.shutdown_loop(loop)

    def sync_consumer():
        own = None
        if sc.get('own_loop'):
            own = rt.VLoop('OWN')      # the documented loop= option: the caller's loop, reused afterwards
            keep.append(own)
            if sc.get('own_loop') == 'reused':
                # an earlier complete use of the bridge on the same loop must leave the loop usable
                async def warm():
                    yield 'warm'
                assert list(A.to_sync_iter(warm(), loop=own)) == ['warm']
        ctl.log('IterStart')
        j = 0
        try:
            for x in (A.to_sync_iter(agen(), loop=own) if own is not None else A.to_sync_iter(agen())):
                check(j, x)
                j += 1
                if sc.get('twin') and j == 1:
                    async def small():
                        yield 'p'
                        yield 'q'
                    try:
                        tw = list(A.to_sync_iter(small()))
                    except BaseException as e:
                        if isinstance(e, rt.Hang):
                            raise
                        tw = [type(e).__name__]
                    ctl.log('Twin', ok=tw == ['p', 'q'])
                if sc.get('consume_delay', 0) > 0:
                    ctl.sleep(sc['consume_delay'])
        except SrcError as e:
            ctl.log('GotExc', same=e is the_exc, exctype='SrcError')
        except BaseException as e:
            if isinstance(e, rt.Hang):
                raise
            ctl.log('GotExc', same=False, exctype=type(e).__name__)
        else:
            ctl.log('Stop')
        ctl.log('IterEnd')
        finish()

    ctl.spawn('L1', async_consumer if sc['which'] == 'to_async' else sync_consumer)
    ctl.start()
    if not rt.wait_finished(ctl, sc.get('wall', 6.0)):
        ctl.status = 'stuck'
    ctl.log('End', status=ctl.status if ctl.status in ('ok', 'hang') else 'stuck')
    return rt.result_payload(ctl)
