"""
Driver for the pure helpers (C18 split/exhaust, C19 parse_to_dict, C20 gather_excs,
C14 cache keys): one case per execution, recorded as a trace for the TLA+ contract.
"""
import asyncio

from harness import rt, pool

_MODS = {}


def worker_init():
    pool.import_aiuti()
    import aiuti.itertools as I
    import aiuti.parsing as P
    import aiuti.asyncio as A
    rt.patch_asyncio_module(A)
    _MODS.update(I=I, P=P, A=A)


def execute(sc):
    import gc
    gc.disable()
    ctl = rt.install(rt.Ctl(rt.ReplayStrategy([]), trace_files=(), max_steps=50000))
    kind = sc['kind']
    if kind == 'split':
        from harness.drivers import pure_split
        pure_split.run(ctl, _MODS['I'], sc)
    elif kind == 'parse':
        from harness.drivers import pure_parse
        pure_parse.run(ctl, _MODS['P'], sc)
    elif kind == 'gather':
        from harness.drivers import pure_gather
        return pure_gather.run(ctl, _MODS['A'], sc)
    elif kind == 'keys':
        from harness.drivers import pure_keys
        return pure_keys.run(ctl, _MODS['A'], sc)
    else:
        raise ValueError(kind)
    ctl.status = 'ok'
    ctl.log('End', status='ok')
    return rt.result_payload(ctl)
