"""C20 cases on the real gather_excs / raise_first_exc, in virtual time."""
import asyncio

from harness import rt


class Base(Exception):
    pass


class Sub(Base):
    pass


class Unrel(ValueError):
    pass


class BaseOnly(BaseException):
    pass


EXC = {'Base': Base, 'Sub': Sub, 'Unrel': Unrel, 'BaseOnly': BaseOnly}
ONLY = dict(EXC, BaseException=BaseException, Exception=Exception)


def run(ctl, A, sc):
    asyncio.set_event_loop_policy(rt.VPolicy())
    aws = sc['aws']
    ctl.log('Config', aws=[[int(d), o] for d, o in aws], only=sc['only'], fn=sc['fn'])
    excs = {}

    def body():
        loop = rt.VLoop('L1')
        asyncio.set_event_loop(loop)

        async def aw(i, d, out):
            try:
                if d > 0:
                    await asyncio.sleep(d)
                elif sc.get('yield0'):
                    await asyncio.sleep(0)
                if out != 'ok':
                    e = EXC[out](i)
                    excs[id(e)] = i
                    e.idx = i
                    raise e
                return i
            finally:
                ctl.log('AwDone', i=i)

        def make(i, d, out):
            c = aw(i, d, out)
            form = sc.get('form', 'coro')
            if form == 'task' or (form == 'mixed' and i % 2 == 0):
                return loop.create_task(c)
            return c

        async def main():
            lst = [make(i + 1, d, o) for i, (d, o) in enumerate(aws)]
            only = ONLY[sc['only']]
            if sc['fn'] == 'gather_excs':
                async for e in A.gather_excs(lst, only):
                    ctl.log('Yielded', i=getattr(e, 'idx', 0))
                ctl.log('Result', raised=0)
            else:
                try:
                    r = await A.raise_first_exc(lst, only)
                except BaseException as e:
                    if isinstance(e, rt.Hang):
                        raise
                    ctl.log('Result', raised=getattr(e, 'idx', -1))
                else:
                    ctl.log('Result', raised=0 if r is None else -2)
            # give unfinished awaitables (a violation) the chance to show up as not done
        # hidden global state must not matter: the process has created some tasks before (asyncio numbers them)
        for _ in range(sc.get('warm', 0)):
            loop.run_until_complete(asyncio.sleep(0))
        try:
            loop.run_until_complete(main())
        except BaseException as e:
            if isinstance(e, rt.Hang):
                raise
            ctl.log('Result', raised=-3)
        rt.shutdown_loop(loop)

    ctl.spawn('L1', body)
    ctl.start()
    if not rt.wait_finished(ctl, 6.0):
        ctl.status = 'stuck'
    ctl.log('End', status=ctl.status if ctl.status in ('ok', 'hang') else 'stuck')
    return rt.result_payload(ctl)
