"""C19 cases on the real parse_to_dict.  The fragment table below is hand-written: the text of
each fragment class and, for literal classes, the Python object it denotes (NOT computed with
ast.literal_eval)."""
import builtins

LIT = {            # fragment -> (text, denoted literal)
    'int': ('1', 1), 'int2': ('2', 2), 'float': ('1.5', 1.5), 'qstr': ('"b"', 'b'),
    'qlit': ('"2.5"', '2.5'),      # a quoted string whose content would itself be a literal: it denotes the string

    'tuple': ('(1, 2)', (1, 2)), 'list': ('[1, 2]', [1, 2]), 'dict': ('{1: 2}', {1: 2}),
    'none': ('None', None), 'true': ('True', True), 'neg': ('-1', -1),
    'padded': (' 1', 1), 'trail': ('1 ', 1),
}
NONLIT = {         # fragment -> text (not a literal: stays as it is)
    'bare': 'abc', 'call': 'trip()', 'attr': 'trip.x', 'op': '1 + 1', 'litcall': '"abc".upper()',
    'litsub': '[1, 2][0]', 'empty': '', 'unhash': '{[1]: 2}',
}
OBJ = {'obj_int': 7, 'obj_tuple': (1, '1'), 'obj_none': None}


class Trip:
    """Trip-wire: any call / attribute access / arithmetic on it is counted."""
    def __init__(self):
        object.__setattr__(self, 'n', 0)

    def __call__(self, *a, **k):
        object.__setattr__(self, 'n', self.n + 1)
        return 1

    def __getattr__(self, name):
        object.__setattr__(self, 'n', object.__getattribute__(self, 'n') + 1)
        return 1


def text_of(frag, sep):
    if frag == 'withsep':
        return 'x' + sep + 'y'
    if frag in LIT:
        return LIT[frag][0]
    return NONLIT[frag]


def concrete(frag, sep):
    if frag in OBJ:
        return OBJ[frag]
    return text_of(frag, sep)


def abstract(obj, sep):
    """Map an object of the result back to <<kind, tokens>>."""
    if isinstance(obj, str):
        for f, (t, v) in LIT.items():
            if isinstance(v, str) and obj == v:
                return ['lit', [f]]
        for f in list(NONLIT) + ['withsep'] + list(LIT):
            if obj == text_of(f, sep):
                return ['raw', ['x', '<SEP>', 'y'] if f == 'withsep' else [f]]
        # a string made of several fragments joined by the separator
        parts = obj.split(sep)
        toks = []
        for j, p in enumerate(parts):
            if j:
                toks.append('<SEP>')
            for f in list(NONLIT) + list(LIT):
                if p == text_of(f, sep):
                    toks.append(f)
                    break
            else:
                toks.append('x' if p == 'x' else 'y' if p == 'y' else '?' + p)
        return ['raw', toks]
    for f, o in OBJ.items():
        if obj is o or (type(obj) is type(o) and obj == o and f != 'obj_none'):
            return ['obj', [f]]
    for f, (t, v) in LIT.items():
        if f in ('padded', 'trail'):
            continue
        if type(obj) is type(v) and obj == v:
            return ['lit', [f]]
    return ['unknown', [type(obj).__name__]]


def run(ctl, P, sc):
    sep = sc.get('sep', '=')
    items = [tuple(it) for it in sc['items']]
    shape = sc['shape']
    ctl.log('Config', items=[list(it) for it in items], shape=shape, pk=bool(sc['pk']), parser=sc['parser'])
    trip = Trip()
    builtins.trip = trip
    P.trip = trip
    if shape == 'mapping':
        arg = {concrete(k, sep): concrete(v, sep) for k, v in items}
    elif shape == 'pairs':
        arg = [(concrete(k, sep), concrete(v, sep)) for k, v in items]
        if sc.get('pairform') == 'lists':
            arg = [list(p) for p in arg]
    elif shape == 'strings':
        arg = [text_of(k, sep) + sep + text_of(v, sep) for k, v in items]
    else:   # nosep: the last string item lacks the separator (fragments containing it are avoided)
        arg = [text_of(k, sep) + sep + text_of(v, sep) for k, v in items[:-1]]
        k, v = items[-1]
        last = (text_of(k, sep) + text_of(v, sep)).replace(sep, '')
        arg.append(last)
    kw = {'parse_keys': bool(sc['pk'])}
    if sep != '=':
        kw['sep'] = sep
    if sc['parser'] == 'raising':
        def bad_parser(x):
            raise [KeyError, ZeroDivisionError, AttributeError][len(x) % 3](x)
        kw['parse'] = bad_parser
    try:
        res = P.parse_to_dict(arg, **kw)
    except ValueError:
        ctl.log('Result', kind='ValueError', pairs=[], trips=trip.n)
        return
    except BaseException as e:
        ctl.log('Result', kind=type(e).__name__, pairs=[], trips=trip.n)
        return
    if type(res) is not dict:
        ctl.log('Result', kind='not_a_dict', pairs=[], trips=trip.n)
        return
    pairs = [[abstract(k, sep), abstract(v, sep)] for k, v in res.items()]
    ctl.log('Result', kind='dict', pairs=pairs, trips=trip.n)
    # the result belongs to the caller: whatever the caller does to it, parsing the same input again
    # gives the literals the input denotes (judged by the same rule as the first result)
    touched = False
    for v in list(res.values()):
        if isinstance(v, list):
            v.append('mutated')
            touched = True
        elif isinstance(v, dict):
            v['mutated'] = 1
            touched = True
    if touched:
        try:
            res2 = P.parse_to_dict(arg, **kw)
        except BaseException as e:
            ctl.log('Result', kind=type(e).__name__, pairs=[], trips=trip.n)
            return
        if type(res2) is not dict:
            ctl.log('Result', kind='not_a_dict', pairs=[], trips=trip.n)
            return
        ctl.log('Result', kind='dict', pairs=[[abstract(k, sep), abstract(v, sep)] for k, v in res2.items()], trips=trip.n)
