"""
Driver for buffer_until_timeout / BufferAsyncCalls (C03, C07, C08, part of C15): timed programs
executed in virtual time on the real code.

Scenario:
 {"timeout": 4.0, "form": "direct" | "options" | "class",
  "func": {"dur": 0.0, "durs": {"2": 6.0}, "fail": [1, 3]},
  "prog": [{"at": 0.0, "op": "call", "id": 1, "x": 1},
           {"at": 1.0, "op": "await", "id": 2, "x": 2, "delay": 1.0, "fail": false},
           {"at": 1.0, "op": "map", "id": 3, "xs": [3, 4], "kind": "list"|"iter", "fail_at": null, "step": 0.0},
           {"at": 2.0, "op": "amap", "id": 4, "xs": [5], "fail_at": 1, "step": 1.0},
           {"at": 3.0, "op": "wait", "w": 1, "cancel": true},
           {"at": 9.0, "op": "shutdown"}],
  "foreign": [{"name": "F1", "start": 1.0, "prog": [{"op": "call", "id": 9, "x": 9}, {"op": "wait", "w": 2, "cancel": true}]}],
  "end": 40.0, "strategy": {...}, "trace": false}
"""
import asyncio
import itertools

from harness import rt, pool

_A = None
_INTERESTING = {}
FILES = None


def worker_init():
    global _A, FILES
    pool.import_aiuti()
    import aiuti.asyncio as A
    rt.patch_asyncio_module(A)
    _A = A
    FILES = pool.aiuti_files()
    global _INTERESTING
    _INTERESTING = {FILES['asyncio']: rt.interesting_lines(FILES['asyncio'])}


class ProducerError(Exception):
    pass


class FuncError(Exception):
    pass


def execute(sc):
    A = _A
    import gc
    gc.disable()
    import logging
    logging.disable(logging.CRITICAL)
    trace = sc.get('trace', bool(sc.get('foreign')))
    ctl = rt.install(rt.Ctl(rt.make_strategy(sc.get('strategy', {'kind': 'replay', 'prefix': []})),
                            trace_files=[FILES['asyncio']] if trace else (),
                            max_steps=sc.get('max_steps', 60000)))
    ctl.interesting = _INTERESTING
    asyncio.set_event_loop_policy(rt.VPolicy())
    ctl.stalls = {k: v for k, v in sc.get('stalls', {}).items()}
    tau = sc.get('timeout', 4.0)
    fspec = sc.get('func', {})
    fail = set(fspec.get('fail', []))
    fail_cancel = set(fspec.get('fail_cancel', []))    # invocations that fail with CancelledError of their own
    durs = {int(k): v for k, v in fspec.get('durs', {}).items()}
    ddur = fspec.get('dur', 0.0)
    ncall = [0]
    keep = []
    ctl.log('Config', tau=int(round(tau * 1000)) if not str(sc.get('form', '')).startswith('default') else 1000)
    state = {}

    async def user_func(S):
        ncall[0] += 1
        n = ncall[0]
        try:
            items = sorted(S)
        except TypeError:
            items = sorted(S, key=repr)
        ctl.log('FuncStart', n=n, S=list(items))
        try:
            d = durs.get(n, ddur)
            if d > 0:
                await asyncio.sleep(d)
            if n in fail:
                ctl.log('FuncEnd', n=n, how='fail')
                if n in fail_cancel:
                    raise asyncio.CancelledError()      # e.g. the function awaited something that was cancelled
                raise FuncError(n)
            ctl.log('FuncEnd', n=n, how='ok')
        except asyncio.CancelledError:
            if n not in fail_cancel:
                ctl.log('FuncEnd', n=n, how='cancel')
            raise

    _orig_log = ctl.log

    def log_with_proj(e, **kw):
        d = _orig_log(e, **kw)
        b = state.get('buf')
        if b is not None and e in ('Submit', 'Produced', 'ProducerDone', 'FuncStart', 'FuncEnd', 'WaitCall', 'WaitRet',
                                   'ProducerFailed', 'Shutdown', 'ShutdownDone'):
            try:
                d['st'] = {'q': b.q.qsize(), 'flag': bool(b.event.is_set())}
            except Exception:
                pass
        return d
    ctl.log = log_with_proj

    def make_buffer():
        form = sc.get('form', 'direct')
        if form == 'direct':
            return A.buffer_until_timeout(user_func, timeout=tau)
        if form == 'options':
            return A.buffer_until_timeout(timeout=tau)(user_func)
        if form == 'default':      # default timeout (1 s)
            return A.buffer_until_timeout(user_func)
        if form == 'default_bare':  # @buffer_until_timeout() with no option
            return A.buffer_until_timeout()(user_func)
        return A.BufferAsyncCalls(user_func, timeout=tau)

    def submit(buf, it, thr):
        op = it['op']
        sid = it['id']
        if op == 'call':
            ctl.log('Submit', id=sid, kind='call', thr=thr, imm=True)
            ctl.log('Produced', id=sid, x=it['x'])
            ctl.log('ProducerDone', id=sid)
            buf(it['x'])
        elif op == 'await':
            ctl.log('Submit', id=sid, kind='await', thr=thr, imm=False)

            async def aw():
                if it.get('delay', 0) > 0:
                    await asyncio.sleep(it['delay'])
                if it.get('fail'):
                    ctl.log('ProducerFailed', id=sid)
                    if it.get('fail') == 'cancel':      # e.g. awaiting a task that was cancelled
                        raise asyncio.CancelledError()
                    raise ProducerError(sid)
                ctl.log('Produced', id=sid, x=it['x'])
                ctl.log('ProducerDone', id=sid)
                return it['x']
            buf.await_(aw())
        elif op == 'map':
            kind = it.get('kind', 'list')
            imm = it.get('fail_at') is None and not it.get('step')
            ctl.log('Submit', id=sid, kind='map_' + kind, thr=thr, imm=imm)
            xs = list(it['xs'])
            if kind == 'list' and it.get('fail_at') is None and not it.get('step'):
                for x in xs:
                    ctl.log('Produced', id=sid, x=x)
                ctl.log('ProducerDone', id=sid)
                buf.map(xs)
            else:
                def gen():
                    for i, x in enumerate(xs):
                        if it.get('fail_at') == i:
                            ctl.log('ProducerFailed', id=sid)
                            raise ProducerError(sid)
                        if it.get('step', 0) > 0:
                            ctl.sleep(it['step'])     # a blocking producer (worker thread)
                        ctl.log('Produced', id=sid, x=x)
                        yield x
                    if it.get('fail_at') == len(xs):
                        ctl.log('ProducerFailed', id=sid)
                        raise ProducerError(sid)
                    ctl.log('ProducerDone', id=sid)
                buf.map(gen())
        elif op == 'amap':
            ctl.log('Submit', id=sid, kind='amap', thr=thr, imm=False)
            xs = list(it['xs'])

            async def agen():
                for i, x in enumerate(xs):
                    if it.get('fail_at') == i:
                        ctl.log('ProducerFailed', id=sid)
                        if it.get('fail_kind') == 'cancel':
                            raise asyncio.CancelledError()
                        raise ProducerError(sid)
                    if it.get('step', 0) > 0:
                        await asyncio.sleep(it['step'])
                    ctl.log('Produced', id=sid, x=x)
                    yield x
                if it.get('fail_at') == len(xs):
                    ctl.log('ProducerFailed', id=sid)
                    raise ProducerError(sid)
                ctl.log('ProducerDone', id=sid)
            buf.amap(agen())
        else:
            raise ValueError(op)

    def loop_thread():
        loop = rt.VLoop('L1')
        keep.append(loop)
        asyncio.set_event_loop(loop)
        waits = []
        shutdown_at = [None]

        async def do_wait(buf, it):
            if it.get('submit_first'):
                # submit and wait in the same step of one coroutine (no yield in between)
                submit(buf, it['submit_first'], 'L1')
            ctl.log('WaitCall', w=it['w'], cancel=bool(it.get('cancel', True)), thr='L1')
            await buf.wait(cancel=bool(it.get('cancel', True)))
            ctl.log('WaitRet', w=it['w'])

        async def main():
            buf = make_buffer()
            state['buf'] = buf
            state['ready'] = True
            ctl.unblock(state)
            sched = []
            for it in sc.get('prog', []):
                if it['op'] == 'wait':
                    sched.append((it['at'], lambda it: waits.append(loop.create_task(do_wait(buf, it))), (it,)))
                elif it['op'] == 'shutdown':
                    shutdown_at[0] = it['at']
                else:
                    sched.append((it['at'], submit, (buf, it, 'L1')))
            rt.call_in_order(loop, 0.0, sched)
            end = sc.get('end', 40.0)
            if shutdown_at[0] is not None:
                await asyncio.sleep(shutdown_at[0])
            else:
                await asyncio.sleep(end)
                ctl.log('Quiescent')

        loop.run_until_complete(main())
        ctl.log('Shutdown')

        def p(label):
            if label == 'drained':
                ctl.log('ShutdownDone')
        rt.shutdown_loop(loop, p)

    def foreign_thread(fs):
        if fs.get('start', 0) > 0:
            ctl.sleep(fs['start'])
        while not state.get('ready'):
            ctl.block(state)
        buf = state['buf']
        name = fs['name']
        loop = None
        for it in fs['prog']:
            if it.get('delay', 0) > 0:
                ctl.sleep(it['delay'])
            if it['op'] == 'wait':
                if loop is None:
                    loop = rt.VLoop(name)
                    keep.append(loop)
                    asyncio.set_event_loop(loop)

                async def w(it=it):
                    ctl.log('WaitCall', w=it['w'], cancel=bool(it.get('cancel', True)), thr=name)
                    await buf.wait_from_anywhere(cancel=bool(it.get('cancel', True)))
                    ctl.log('WaitRet', w=it['w'])
                loop.run_until_complete(w())
            else:
                submit(buf, it, name)
        if loop is not None:
            loop.close()

    ctl.spawn('L1', loop_thread)
    for fs in sc.get('foreign', []):
        ctl.spawn(fs['name'], foreign_thread, fs)
    ctl.start()
    if not rt.wait_finished(ctl, sc.get('wall', 6.0)):
        ctl.status = 'stuck'
    ctl.log('End', status=ctl.status if ctl.status in ('ok', 'hang') else 'stuck')
    return rt.result_payload(ctl, {'invocations': ncall[0]})
