"""C14 cases on the real threadsafe_async_cache."""
import asyncio
import collections.abc

from harness import rt


class StrSub(str):
    pass


CONC = {'u': [1, 1.0, True], 'v': ['x', StrSub('x'), 'x']}
# a second concretisation: equal-but-distinct numbers whose hashes collide in CPython (hash(-1) == hash(-2))
CONC2 = {'u': [-1, -1.0, -1], 'v': [-2, -2.0, -2]}


class Mapping(collections.abc.MutableMapping):
    def __init__(self):
        self.d = {}

    def __getitem__(self, k):
        return self.d[k]

    def __setitem__(self, k, v):
        self.d[k] = v

    def __delitem__(self, k):
        del self.d[k]

    def __iter__(self):
        return iter(self.d)

    def __len__(self):
        return len(self.d)


class Expiring(Mapping):
    """A caller-supplied cache whose entries expire at a moment of its own choosing (a TTL cache seen from the
    wrapper): an entry disappears right after it was reported present ('contains') or right after it was read
    ('getitem').  The evictions are reported to the driver, which logs them after the call in progress."""
    def __init__(self, when, pending):
        super().__init__()
        self.when = when
        self.pending = pending

    def _expire(self, k):
        if k in self.d:
            del self.d[k]
            self.pending.append(k)

    def __setitem__(self, k, v):
        self.d[k] = v
        if self.when == 'setitem':       # a mapping that does not keep what it is given (size 0, weak values ...)
            self._expire(k)

    def __contains__(self, k):
        r = k in self.d
        if r and self.when == 'contains':
            self._expire(k)
        return r

    def __getitem__(self, k):
        v = self.d[k]
        if self.when == 'getitem':
            self._expire(k)
        return v

    def get(self, k, default=None):
        try:
            v = self.d[k]
        except KeyError:
            return default
        if self.when == 'getitem':
            self._expire(k)
        return v


def run(ctl, A, sc):
    asyncio.set_event_loop_policy(rt.VPolicy())
    mode = sc['mode']
    empty = {'args': [], 'kw': []}
    ctl.log('Config', mode=mode, s1=sc.get('s1', empty), s2=sc.get('s2', empty), ops=sc.get('ops', []),
            lru=sc.get('lru', 0))
    cur = [0]

    class Val:
        def __init__(self, j):
            self.j = j

    async def func(*args, **kwargs):
        j = cur[0]
        ctl.log('FuncStart', j=j)
        if sc.get('dur', 0) > 0:
            await asyncio.sleep(sc['dur'])
        if sc.get('retnone'):
            return None          # a legitimate result that is falsy / None
        return Val(j)

    def body():
        loop = rt.VLoop('L1')
        asyncio.set_event_loop(loop)
        if mode == 'ops':
            pending = []
            store = Mapping() if sc.get('expire') in (None, 'never') else Expiring(sc['expire'], pending)
            if sc.get('lru', 0) > 0:
                from lru import LRU
                store = LRU(sc['lru'])
            wrapped = A.threadsafe_async_cache(func, cache=store) if sc.get('form') != 'options' \
                else A.threadsafe_async_cache(cache=store)(func)
        else:
            wrapped = A.threadsafe_async_cache(func)
            store = None

        async def call(j, args, kw):
            cur[0] = j
            try:
                v = await wrapped(*args, **kw)
            except asyncio.CancelledError:
                raise
            except Exception as e:       # the wrapped function never raises here: not an outcome of this call
                ctl.log('CallEnd', j=j, inv=-3, exctype=type(e).__name__)
            else:
                ctl.log('CallEnd', j=j, inv=-2 if (v is None and sc.get('retnone')) else getattr(v, 'j', -1))
            if mode == 'ops':
                while pending:           # entries that expired during this call
                    ctl.log('Evict', k=pending.pop(0)[0][0])

        table = CONC2 if sc.get('conc') == 2 else CONC

        def conc_sig(sig, variant):
            args = tuple(table[v][(i + variant) % 3] for i, v in enumerate(sig['args']))
            kw = {}
            for i, (n, v) in enumerate(sig['kw']):
                kw[n] = table[v][(i + 2 * variant + 1) % 3]
            return args, kw

        async def main():
            if mode == 'twofuncs':
                async def g(*args, **kwargs):
                    return await func(*args, **kwargs)
                form = sc.get('form', 'options')
                if form == 'options':
                    deco = A.threadsafe_async_cache() if sc.get('variant') != 'none' else A.threadsafe_async_cache(cache=None)
                    wf, wg = deco(func), deco(g)
                elif form == 'bare':
                    wf, wg = A.threadsafe_async_cache(func), A.threadsafe_async_cache(g)
                else:
                    wf, wg = A.threadsafe_async_cache(func, cache=None), A.threadsafe_async_cache(g, cache=None)
                a1, k1 = conc_sig(sc['s1'], 0)
                for j, w in enumerate([wf, wg, wf, wg], 1):
                    cur[0] = j
                    v = await w(*a1, **k1)
                    ctl.log('CallEnd', j=j, inv=getattr(v, 'j', -1))
                ctl.log('PairEnd')
            elif mode == 'pair':
                a1, k1 = conc_sig(sc['s1'], 0)
                a2, k2 = conc_sig(sc['s2'], 1)
                if sc.get('concurrent'):
                    async def second():
                        await asyncio.sleep(0)
                        await call(2, a2, k2)
                    # the second call starts while the first is computing; its FuncStart (if any) is call 2's
                    t = loop.create_task(second())
                    await call(1, a1, k1)
                    await t
                else:
                    await call(1, a1, k1)
                    await call(2, a2, k2)
                ctl.log('PairEnd')
            else:
                for j, (op, k) in enumerate(sc['ops'], 1):
                    if op == 'call':
                        await call(j, (k,), {})
                    else:
                        key = ((k,), frozenset())
                        ctl.log('Evict', k=k)
                        store.pop(key, None) if hasattr(store, 'pop') else None
        loop.run_until_complete(main())
        rt.shutdown_loop(loop)

    ctl.spawn('L1', body)
    ctl.start()
    if not rt.wait_finished(ctl, 6.0):
        ctl.status = 'stuck'
    ctl.log('End', status=ctl.status if ctl.status in ('ok', 'hang') else 'stuck')
    return rt.result_payload(ctl)
