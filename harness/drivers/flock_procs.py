"""Free-running contender process for C02: N acquire/section/release rounds on one lock
file through the real aiuti.filelock (imported from PYTHONPATH).  Every record is one
write(2) on an O_APPEND descriptor *inside* the protected section, so file order is the
linearisation of the sections."""
import os
import sys
import time
import random

from aiuti.filelock import FileLock

lockp, logp, pid, rounds, seed = sys.argv[1], sys.argv[2], int(sys.argv[3]), int(sys.argv[4]), int(sys.argv[5])
rng = random.Random(seed * 1000 + pid)
log = os.open(logp, os.O_WRONLY | os.O_APPEND)
lock = FileLock(lockp, reentrant=(pid % 3 == 0))


def rec(kind, h):
    os.write(log, ('%s %d %d\n' % (kind, pid, h)).encode())


def section(h):
    rec('A', h)
    rec('E', h)
    if rng.random() < 0.3:
        time.sleep(rng.random() * 0.0005)
    rec('X', h)


# contenders come and go: some processes do fewer rounds (and exit while the others still contend), and every
# process now and then drops its FileLock object and makes a fresh one for the same path
rounds = max(1, rounds * (2 + pid % 3) // 4)
for r in range(rounds):
    h = pid * 100000 + r
    if r and rng.random() < 0.15:
        lock = FileLock(lockp, reentrant=(pid % 3 == 0))
    form = rng.choice(['acquire', 'with', 'ctx', 'timed'])
    if form == 'acquire':
        if lock.acquire():
            try:
                section(h)
            finally:
                lock.release()
    elif form == 'with':
        with lock:
            section(h)
    elif form == 'ctx':
        with lock.acquire_ctx():
            section(h)
    else:
        if lock.acquire(timeout=5, poll_interval=0.001):
            try:
                section(h)
            finally:
                lock.release()
