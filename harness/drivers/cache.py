"""
Driver for threadsafe_async_cache (C01, C05, C06, C14): executes one scenario on the real
code under the deterministic runtime and returns the observable trace.

Scenario (JSON):
 {"loops": [{"name": "L1", "start": 0.0,
             "callers": [{"c": 1, "k": "a", "at": 0.0, "cancel_at": null, "tmo": null}],
             "life": "full" | "early" | "early_close" | "early_leave",
             "main_dur": 0.5}],
  "func": {"dur": 1.0, "durs": {"<inv index>": d}, "fail": [inv indexes that raise]},
  "mapping": "dict" | "mm" | "lru",
  "strategy": {...}, "trace": true, "max_steps": 20000}
"""
import os
import sys
import asyncio
import contextvars
import collections.abc

from harness import rt, pool

_A = None      # aiuti.asyncio module
FILES = None


def worker_init():
    global _A, FILES
    pool.import_aiuti()
    import aiuti.asyncio as A
    rt.patch_asyncio_module(A)
    _A = A
    FILES = pool.aiuti_files()
    global _INTERESTING
    _INTERESTING = {FILES['asyncio']: rt.interesting_lines(FILES['asyncio'])}


class HExc(Exception):
    def __init__(self, inv):
        super().__init__('invocation %d failed' % inv)
        self.inv = inv


class Val:
    __slots__ = ('inv', 'k')

    def __init__(self, inv, k):
        self.inv = inv
        self.k = k


class FalsyVal(Val):
    __slots__ = ()

    def __bool__(self):
        return False

    def __len__(self):
        return 0


class MM(collections.abc.MutableMapping):
    """A retaining MutableMapping that is not a dict."""
    def __init__(self):
        self.d = {}

    def __getitem__(self, k):
        return self.d[k]

    def __setitem__(self, k, v):
        self.d[k] = v

    def __delitem__(self, k):
        del self.d[k]

    def __iter__(self):
        return iter(self.d)

    def __len__(self):
        return len(self.d)


class ExpC(MM):
    """A retaining mapping as far as the wrapper's documented use goes (lookup by subscription, store by
    assignment) - but an entry that is merely *tested for* (`key in cache`) expires right after the test, as an
    entry of a TTL cache can between any two operations."""
    def __contains__(self, k):
        r = k in self.d
        if r:
            del self.d[k]
        return r

    def values(self):
        return list(self.d.values())


class Tiny(MM):
    """A caller-supplied mapping that keeps only the most recently stored key (evicts on insert)."""
    def __setitem__(self, k, v):
        if k not in self.d:
            self.d.clear()
        self.d[k] = v


_cur_call = contextvars.ContextVar('cur_call', default=0)


def execute(sc):
    A = _A
    import gc
    gc.disable()
    trace = sc.get('trace', True)
    ctl = rt.install(rt.Ctl(rt.make_strategy(sc.get('strategy', {'kind': 'random', 'seed': 0})),
                            trace_files=[FILES['asyncio']] if trace else (),
                            max_steps=sc.get('max_steps', 30000)))
    ctl.interesting = _INTERESTING
    ctl.stalls = {k: v for k, v in sc.get('stalls', {}).items()}     # thread -> [nth aiuti line, virtual seconds]
    asyncio.set_event_loop_policy(rt.VPolicy())
    fspec = sc.get('func', {})
    inv_counter = [0]
    fail = set(fspec.get('fail', []))
    durs = {int(k): v for k, v in fspec.get('durs', {}).items()}
    ddur = fspec.get('dur', 1.0)
    # 'ret': what a successful invocation returns: 'val' (an object naming its invocation), 'none' (None: every
    # invocation returns the same None, attributed to the key's first successful invocation) or 'falsy' (a Val
    # that is falsy and of length 0)
    ret = fspec.get('ret', 'val')
    first_ok = {}

    def start(k):
        inv_counter[0] += 1
        i = inv_counter[0]
        loop = asyncio.get_running_loop()
        ctl.log('FuncStart', i=i, k=k, loop=loop.vname, c=_cur_call.get())
        ctl.point('func-start')
        return i

    async def body(i, k):
        try:
            d = durs.get(i, ddur)
            if d > 0:
                await asyncio.sleep(d)
            elif d == 0:
                pass            # zero duration: completes within the same task step
            else:
                await asyncio.sleep(0)   # negative: one bare yield
            if i in fail:
                ctl.log('FuncEnd', i=i, how='raise')
                raise HExc(i)
            ctl.log('FuncEnd', i=i, how='ok')
            first_ok.setdefault(k, i)
            if ret == 'none':
                return None
            if ret == 'falsy':
                return FalsyVal(i, k)
            return Val(i, k)
        except asyncio.CancelledError:
            ctl.log('FuncEnd', i=i, how='cancel')
            raise

    if fspec.get('form', 'async') == 'plain':
        # a plain function returning an awaitable: a failing invocation of zero duration raises from the call
        # itself (e.g. argument validation), before any awaitable exists
        def user_func(k):
            i = start(k)
            if i in fail and durs.get(i, ddur) == 0:
                ctl.log('FuncEnd', i=i, how='raise')
                raise HExc(i)
            return body(i, k)
    else:
        async def user_func(k):
            return await body(start(k), k)

    mp = sc.get('mapping', 'dict')
    if mp == 'dict':
        wrapped = A.threadsafe_async_cache(user_func)
    elif mp == 'mm':
        wrapped = A.threadsafe_async_cache(user_func, cache=MM())
    elif mp == 'expc':
        wrapped = A.threadsafe_async_cache(user_func, cache=ExpC())
    elif mp == 'tiny':
        wrapped = A.threadsafe_async_cache(user_func, cache=Tiny())
    elif mp == 'lru':
        from lru import LRU
        wrapped = A.threadsafe_async_cache(cache=LRU(64))(user_func)
    else:
        raise ValueError(mp)

    keep = []   # nothing under test is finalised during the execution

    # ---- abstract-state projection (for conformance with Cache.tla): read the closure cells by name
    cells = {}
    try:
        w = wrapped
        for n, c in zip(w.__code__.co_freevars, w.__closure__ or ()):
            cells[n] = c
    except Exception:
        cells = {}
    have_proj = all(n in cells for n in ('_cache', 'events', 'event_making_lock'))

    def proj():
        if not have_proj or not sc.get('proj', True):
            return None
        try:
            cache_map = cells['_cache'].cell_contents
            events = cells['events'].cell_contents
            lock = cells['event_making_lock'].cell_contents
            vals = [v.inv for v in list(cache_map.values()) if isinstance(v, Val)]
            if ret == 'none' and not vals and len(cache_map):
                # the cached result is None: it stands for the key's first successful invocation
                vals = [first_ok[k] for k in first_ok]
            mk = list(events.values())
            return {'cache': vals[0] if vals else 0,
                    'mloop': getattr(mk[0][0], 'vname', '?') if mk else 'none',
                    'lock': bool(lock.locked()) if hasattr(lock, 'locked') else False}
        except Exception:
            return None

    _orig_log = ctl.log

    def log_with_proj(e, **kw):
        d = _orig_log(e, **kw)
        if e in ('CallStart', 'FuncStart', 'FuncEnd', 'CallEnd', 'Cancel', 'LoopStopped', 'LoopRunning',
                 'LoopAbandoned'):
            p = proj()
            if p is not None:
                d['st'] = p
        return d
    ctl.log = log_with_proj

    def loop_thread(ls):
        name = ls['name']
        if ls.get('start', 0) > 0:
            ctl.sleep(ls['start'])
        loop = rt.VLoop(name)
        keep.append(loop)
        loop.on_running = lambda l: ctl.log('LoopRunning', loop=name)
        loop.on_stopped = lambda l: ctl.log('LoopStopped', loop=name)
        asyncio.set_event_loop(loop)
        tasks = {}
        keep.append(tasks)

        async def caller(cs):
            c = cs['c']
            if cs.get('at', 0) > 0:
                await asyncio.sleep(cs['at'])
            _cur_call.set(c)
            tmo = cs.get('tmo')
            ctl.log('CallStart', c=c, k=cs['k'], loop=name,
                    tmo=-1 if tmo is None else int(round(tmo * 1000)))
            ctl.point('call-start')
            try:
                if tmo is None:
                    v = await wrapped(cs['k'])
                else:
                    v = await asyncio.wait_for(wrapped(cs['k']), tmo)
            except HExc as e:
                ctl.log('CallEnd', c=c, kind='exc', inv=e.inv, exctype='HExc')
            except asyncio.TimeoutError:
                ctl.log('CallEnd', c=c, kind='timeout', inv=0, exctype='TimeoutError')
            except asyncio.CancelledError:
                ctl.log('CallEnd', c=c, kind='cancel', inv=0, exctype='CancelledError')
            except BaseException as e:
                if isinstance(e, rt.Hang):
                    raise
                ctl.log('CallEnd', c=c, kind='exc', inv=0, exctype=type(e).__name__)
            else:
                if isinstance(v, Val):
                    ctl.log('CallEnd', c=c, kind='val', inv=v.inv, exctype='')
                elif v is None and ret == 'none' and cs['k'] in first_ok:
                    ctl.log('CallEnd', c=c, kind='val', inv=first_ok[cs['k']], exctype='')
                else:
                    ctl.log('CallEnd', c=c, kind='val', inv=0, exctype=type(v).__name__)

        def do_cancel(c):
            t = tasks.get(c)
            if t is not None and not t.done():
                ctl.log('Cancel', c=c)
                t.cancel()

        async def main():
            for cs in ls['callers']:
                tasks[cs['c']] = loop.create_task(caller(cs))
                if cs.get('cancel_at') is not None:
                    loop.call_at(cs['cancel_at'], do_cancel, cs['c'])
            life = ls.get('life', 'full')
            if life == 'full':
                if tasks:
                    await asyncio.gather(*tasks.values(), return_exceptions=True)
            else:
                await asyncio.sleep(ls.get('main_dur', 0))

        life = ls.get('life', 'full')
        loop.run_until_complete(main())
        ctl.point('main-returned')
        if ls.get('shutdown_delay', 0) > 0:
            ctl.sleep(ls['shutdown_delay'])   # a thread that is slow to get to its clean-up
        if life == 'early_resume':
            # the thread comes back to its loop later (loop.run_until_complete(something_else)): whatever was left
            # pending goes on; optionally the computing caller is cancelled first, as a program may do
            if ls.get('resume_cancel') is not None:
                do_cancel(ls['resume_cancel'])

            async def rest():
                if tasks:
                    await asyncio.gather(*tasks.values(), return_exceptions=True)
            loop.run_until_complete(rest())
            ctl.point('resumed-main-returned')
        if life in ('full', 'early', 'early_resume'):
            def p(label):
                if label == 'cancel':
                    # what asyncio.run does next: cancel every leftover task of this loop
                    for c, t in tasks.items():
                        if not t.done():
                            ctl.log('Cancel', c=c)
                    ctl.log('LoopShutdown', loop=name)
                elif label == 'closed':
                    ctl.log('LoopAbandoned', loop=name)
                ctl.point('life-' + label)
            rt.shutdown_loop(loop, p)
        elif life == 'early_close':
            ctl.log('LoopAbandoned', loop=name)
            ctl.point('life-close')
            loop.close()
            ctl.point('life-closed')
        else:   # early_leave: stopped, never closed
            ctl.log('LoopAbandoned', loop=name)

    for ls in sc['loops']:
        ctl.spawn(ls['name'], loop_thread, ls)
    ctl.start()
    if not rt.wait_finished(ctl, sc.get('wall', 6.0)):
        ctl.status = 'stuck'
    ctl.log('End', status=ctl.status if ctl.status in ('ok', 'hang') else 'stuck')
    return rt.result_payload(ctl, {'invocations': inv_counter[0]})
