"""C18 cases on the real split()/exhaust()."""
TRUTHY = [True, 1, 'x', [0], 2.5]
FALSY = [False, 0, '', None, []]


def run(ctl, I, sc):
    src = list(sc['src'])
    kind = sc['ckind']
    c = list(sc['c'])
    form = sc.get('form', 'list')
    pulls = [0]
    calls = [0]
    ctl.log('Config', src=src, kind=kind, c=c)

    class Src:
        """A one-shot iterator counting successful pulls."""
        def __init__(self):
            self.i = 0

        def __iter__(self):
            return self

        def __next__(self):
            if self.i >= len(src):
                raise StopIteration
            x = src[self.i]
            self.i += 1
            pulls[0] += 1
            return x

    def gen_src():
        for x in src:
            pulls[0] += 1
            yield x

    class ListSrc(list):
        """A re-iterable source whose iterators count pulls."""
        def __iter__(self):
            return Src()

    if form == 'iter':
        source = Src()
    elif form == 'gen':
        source = gen_src()
    else:
        source = ListSrc(src)

    def conc(b, i):
        return TRUTHY[i % len(TRUTHY)] if b else FALSY[i % len(FALSY)]

    if kind == 'bools':
        vals = [conc(b, i) for i, b in enumerate(c)]

        def cond_iter():
            for v in vals:
                calls[0] += 1
                yield v
        cform = sc.get('cform', 'list')
        cond = cond_iter() if cform == 'iter' else list(vals)
        if cform != 'iter':
            calls = pulls            # a plain list condition is not instrumented: bound by the source pulls
    elif kind == 'fn_val':
        def cond(x):
            calls[0] += 1
            return conc(c[x - 1], calls[0])
    else:
        def cond(x):
            calls[0] += 1
            k = calls[0]
            return conc(c[k - 1], k) if k <= len(c) else False
    try:
        t, f = I.split(source, cond)
    except Exception as e:          # split() itself never raises for these inputs: reported as an eager failure
        ctl.log('Created', pulls=-1, calls=-1, exc=type(e).__name__)
        return
    ctl.log('Created', pulls=pulls[0], calls=calls[0] if kind != 'bools' or sc.get('cform') == 'iter' else 0)
    its = {'T': t, 'F': f}
    del t, f
    drop = sc.get('drop')            # [which, after how many steps]: that result iterator is closed and dropped
    for step, w in enumerate(sc['order']):
        if drop and step == drop[1] and drop[0] in its:
            it = its.pop(drop[0])
            close = getattr(it, 'close', None)
            if close is not None:
                close()
            del it, close            # (reference counting finalises it at once)
        if w not in its:
            continue
        try:
            v = next(its[w])
            stop = False
        except StopIteration:
            v = 0
            stop = True
        except Exception as e:      # neither an element nor the end: an exception of the machinery
            ctl.log('Next', w=w, stop=False, val=-2, exc=type(e).__name__, pulls=pulls[0], calls=calls[0] if kind != 'bools' else 0)
            continue
        ctl.log('Next', w=w, stop=stop, val=v if isinstance(v, int) and not isinstance(v, bool) else -1,
                pulls=pulls[0], calls=calls[0] if kind != 'bools' else 0)
    # exhaust(): consumes its whole argument and returns None
    left = Src()
    ret = I.exhaust(left)
    ctl.log('Exhaust', ret='None' if ret is None else type(ret).__name__, left=len(src) - left.i)
