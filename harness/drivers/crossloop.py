"""
Driver for ensure_aw / run_aw_threadsafe / loop_in_thread (C17).

Scenario:
 {"target": "idle" | "lit" | "closed",          # the shared target loop T
  "callers": [{"c": 1, "thr": "C1", "start": 0.0, "fn": "ensure_aw"|"run_aw_threadsafe",
               "to": "T" | "own", "aw": {"kind": "coro"|"task"|"future", "out": "val"|"exc", "dur": 0.0}}],
  "stop_at": 5.0 (for lit: when the main thread calls stop()), "strategy": {...}}
"""
import asyncio

from harness import rt, pool

_A = None
_INTERESTING = {}
FILES = None


def worker_init():
    global _A, FILES
    pool.import_aiuti()
    import aiuti.asyncio as A
    rt.patch_asyncio_module(A)
    _A = A
    FILES = pool.aiuti_files()
    global _INTERESTING
    _INTERESTING = {FILES['asyncio']: rt.interesting_lines(FILES['asyncio'])}


class AwError(Exception):
    def __init__(self, c):
        super().__init__('awaitable of call %d failed' % c)
        self.c = c


class AwRuntimeError(AwError, RuntimeError):
    """the awaitable's own exception may belong to any family, e.g. be a RuntimeError"""


class AwLookupError(AwError, KeyError):
    pass


class AwTimeoutError(AwError, TimeoutError):
    pass


EXC = {'plain': AwError, 'runtime': AwRuntimeError, 'lookup': AwLookupError, 'timeout': AwTimeoutError}


def execute(sc):
    A = _A
    import gc
    gc.disable()
    ctl = rt.install(rt.Ctl(rt.make_strategy(sc.get('strategy', {'kind': 'replay', 'prefix': []})),
                            trace_files=[FILES['asyncio']] if sc.get('trace', True) else (),
                            max_steps=sc.get('max_steps', 40000)))
    ctl.interesting = _INTERESTING
    ctl.stalls = {k: v for k, v in sc.get('stalls', {}).items()}     # thread -> [nth aiuti line, virtual seconds]
    asyncio.set_event_loop_policy(rt.VPolicy())
    keep = []
    runners = {}
    loops = {}
    running = set()

    def watch(loop, name):
        def on_running(l):
            ctl.log('RunnerEnter', loop=name, thr=ctl.me_name())
        def on_stopped(l):
            ctl.log('RunnerExit', loop=name, thr=ctl.me_name())
        loop.on_running = on_running
        loop.on_stopped = on_stopped

    T = rt.VLoop('T')
    keep.append(T)
    watch(T, 'T')

    # ---- abstract-state projection (for conformance with CrossLoop.tla), read without running traced code
    raw_log = ctl.log

    def log_with_proj(e, **kw):
        d = raw_log(e, **kw)
        try:
            lk = getattr(A, '_LOOP_LOCKS', {}).get(id(T))
            cl = getattr(A, '_LOOP_LOCKS_CREATE_LOCK', None)
            d['st'] = [bool(T.is_running()), lk is not None, bool(lk is not None and lk._owner is not None),
                       bool(cl is not None and getattr(cl, '_owner', None) is not None)]
        except Exception:
            pass
        return d
    ctl.log = log_with_proj
    mode = sc['target']
    ctl.log('Config', target=mode, ncallers=len(sc['callers']))
    state = {'ready': mode in ('idle', 'idle_then_lit'), 'done': 0}

    def make_aw(cs, loop_for_objects):
        c = cs['c']
        aw = cs['aw']
        dur = aw.get('dur', 0.0)

        async def coro():
            l = asyncio.get_running_loop()
            ctl.log('AwEval', c=c, thr=ctl.me_name(), loop=l.vname)
            ctl.point('aw')
            if dur > 0:
                await asyncio.sleep(dur)
            ctl.log('AwDone', c=c)
            if aw.get('out') == 'exc':
                raise EXC[aw.get('exccls', 'plain')](c)
            return ('val', c)
        kind = aw.get('kind', 'coro')
        if kind == 'donefut':
            return pre[c]
        if kind == 'coro':
            return coro()
        if kind == 'task':
            return loop_for_objects.create_task(coro())
        if kind == 'future':
            fut = loop_for_objects.create_future()

            def resolve():
                ctl.log('AwEval', c=c, thr=ctl.me_name(), loop=loop_for_objects.vname)
                ctl.log('AwDone', c=c)
                if aw.get('out') == 'exc':
                    fut.set_exception(EXC[aw.get('exccls', 'plain')](c))
                else:
                    fut.set_result(('val', c))
            loop_for_objects.call_later(dur, resolve)
            return fut
        raise ValueError(kind)

    # futures on T that are already resolved before anybody awaits them (created before T is closed)
    pre = {}
    for cs in sc['callers']:
        if cs['aw'].get('kind') == 'donefut':
            f = T.create_future()
            if cs['aw'].get('out') == 'exc':
                f.set_exception(EXC[cs['aw'].get('exccls', 'plain')](cs['c']))
            else:
                f.set_result(('val', cs['c']))
            pre[cs['c']] = f

    def caller_thread(cs):
        name = cs['thr']
        if cs.get('start', 0) > 0:
            ctl.sleep(cs['start'])
        while not state['ready']:
            ctl.block(state)
        loop = rt.VLoop(name)
        keep.append(loop)
        asyncio.set_event_loop(loop)
        loops[name] = loop
        to = cs.get('to', 'T')
        if to in ('T', 'own'):
            target = T if to == 'T' else loop
        else:
            # another caller's own loop, which that caller's thread is running natively (run_until_complete)
            while to not in running:
                ctl.block(state)
            target = loops[to]

        async def main():
            c = cs['c']
            running.add(name)
            ctl.unblock(state)
            ctl.log('CallStart', c=c, thr=name, to=to, fn=cs.get('fn', 'ensure_aw'),
                    kind=cs['aw'].get('kind', 'coro'), out=cs['aw'].get('out', 'val'))
            try:
                aw = make_aw(cs, target)
                if cs.get('fn', 'ensure_aw') == 'ensure_aw':
                    v = await A.ensure_aw(aw, target)
                else:
                    v = await A.run_aw_threadsafe(aw, target)
            except AwError as e:
                ctl.log('CallEnd', c=c, kind='exc', tag=e.c, exctype='AwError')
            except RuntimeError as e:
                ctl.log('CallEnd', c=c, kind='runtimeerror', tag=0, exctype='RuntimeError', msg=str(e)[:60])
            except BaseException as e:
                if isinstance(e, rt.Hang):
                    raise
                ctl.log('CallEnd', c=c, kind='other', tag=0, exctype=type(e).__name__)
            else:
                if isinstance(v, tuple) and len(v) == 2 and v[0] == 'val':
                    ctl.log('CallEnd', c=c, kind='val', tag=v[1], exctype='')
                else:
                    ctl.log('CallEnd', c=c, kind='other', tag=0, exctype='value')
        try:
            loop.run_until_complete(main())
        finally:
            state['done'] += 1
            ctl.unblock(state)
        loop.close()

    def main_thread():
        stop = None
        if mode == 'closed':
            T.close()
            state['ready'] = True
            ctl.unblock(state)
        elif mode in ('lit', 'idle_then_lit'):
            if mode == 'idle_then_lit' and sc.get('lit_at', 0) > 0:
                ctl.sleep(sc['lit_at'])       # callers already use the idle loop when loop_in_thread is called
            stop = A.loop_in_thread(T)
            ctl.log('LITReturned', running=bool(T.is_running()))
            state['ready'] = True
            ctl.unblock(state)
        if mode in ('lit', 'idle_then_lit'):
            # stop once every caller is finished (or at stop_at, whichever is later)
            if sc.get('stop_at', 0) > 0:
                ctl.sleep(sc['stop_at'])
            if mode == 'lit':
                while state['done'] < len(sc['callers']):
                    ctl.block(state)
            # (idle_then_lit: stop at the given time whether or not the callers are done: a caller that chose the
            #  idle path just before the loop was started waits for the loop's lock until the loop is stopped)
            ctl.log('StopCalled')
            stop()
            ctl.log('StopReturned', running=bool(T.is_running()))

    ctl.spawn('M', main_thread)
    for cs in sc['callers']:
        ctl.spawn(cs['thr'], caller_thread, cs)
    ctl.start()
    if not rt.wait_finished(ctl, sc.get('wall', 6.0)):
        ctl.status = 'stuck'
    ctl.log('End', status=ctl.status if ctl.status in ('ok', 'hang') else 'stuck')
    return rt.result_payload(ctl)
