"""
Driver for AsyncBackgroundBatcher / async_background_batcher (C04, C09, C10, C11, C15): timed
programs of calls executed in virtual time on the real code.

Scenario:
 {"form": "class" | "deco_direct" | "deco_options" | "deco_bare",
  "opts": {"max_batch_size": 2, "max_concurrent_batches": 1, "batch_timeout": 4.0, "retention_timeout": 0.0},
  "calls": [{"i": 1, "at": 0.0, "arg": 1, "key": null, "cancel_at": null, "tmo": null, "loop": "L1"}],
  "behav": {"<key>": "value" | "excval" | "omit" | "dup" | "unknown"},
  "raise_at": [batch, position] | null, "order": "fwd" | "rev" | ["shuf", seed],
  "item_dur": 0.0, "batch_dur": 0.0, "batch_durs": {"2": 8.0},
  "setmax": [{"at": 3.0, "n": 1}], "end": 60.0,
  "loops": [{"name": "L1", "start": 0.0, "end": 60.0}]   (default: one loop)}
"""
import asyncio
import random

from harness import rt, pool

_A = None
FILES = None


def worker_init():
    global _A, FILES
    pool.import_aiuti()
    import aiuti.asyncio as A
    rt.patch_asyncio_module(A)
    _A = A
    FILES = pool.aiuti_files()


class _BatchErrorBase(Exception):
    pass


class BatchError(_BatchErrorBase):
    def __init__(self, b):
        super().__init__('batch %d failed' % b)
        self.b = b


class BatchKeyError(BatchError, KeyError):
    """the exception a batch function dies of may belong to any family (a failed dict look-up ...)"""


class BatchRuntimeError(BatchError, RuntimeError):
    pass


class BatchTimeout(BatchError, TimeoutError):
    pass


RAISEFAM = {'plain': BatchError, 'key': BatchKeyError, 'runtime': BatchRuntimeError, 'timeout': BatchTimeout}


class TaggedExc(Exception):
    def __init__(self, tag):
        super().__init__('yielded exception %r' % (tag,))
        self.tag = tag


class TaggedKeyError(TaggedExc, KeyError):
    """the exception a batch function reports for one request may belong to any family"""


class TaggedRuntimeError(TaggedExc, RuntimeError):
    pass


class TaggedTimeout(TaggedExc, TimeoutError):
    pass


EXCFAM = {'plain': TaggedExc, 'key': TaggedKeyError, 'runtime': TaggedRuntimeError, 'timeout': TaggedTimeout}


class Val:
    __slots__ = ('tag',)

    def __init__(self, tag):
        self.tag = tag


DEFAULTS = {'max_batch_size': 256, 'max_concurrent_batches': 5, 'batch_timeout': 0.05, 'retention_timeout': 0.0}


def execute(sc):
    A = _A
    import gc
    gc.disable()
    import logging
    logging.disable(logging.CRITICAL)
    ctl = rt.install(rt.Ctl(rt.make_strategy(sc.get('strategy', {'kind': 'replay', 'prefix': []})),
                            trace_files=(), max_steps=sc.get('max_steps', 80000)))
    asyncio.set_event_loop_policy(rt.VPolicy())
    opts = dict(sc.get('opts', {}))
    eff = dict(DEFAULTS)
    eff.update(opts)
    if sc.get('declared'):          # what the contract is instantiated with (C15: the values *given*)
        eff.update(sc['declared'])
    ms = lambda s: int(round(s * 1000))
    ctl.log('Config', maxb=eff['max_batch_size'], maxc=eff['max_concurrent_batches'],
            bt=ms(eff['batch_timeout']), rt=ms(eff['retention_timeout']))
    behav = sc.get('behav', {})
    raise_at = sc.get('raise_at')
    nb = [0]
    ny = [0]
    keep = []
    bdurs = {int(k): v for k, v in sc.get('batch_durs', {}).items()}

    def batch_fn(items):
        items = list(items)
        nb[0] += 1
        b = nb[0]
        loopname = asyncio.get_running_loop().vname

        async def gen():
            ctl.log('BatchStart', b=b, items=[k for k, _ in items], loop=loopname)
            ended = [False]

            def end(how):
                if not ended[0]:
                    ended[0] = True
                    ctl.log('BatchEnd', b=b, how=how)
            try:
                d = bdurs.get(b, sc.get('batch_dur', 0.0))
                if d > 0:
                    await asyncio.sleep(d)
                order = sc.get('order', 'fwd')
                its = list(items)
                if order == 'rev':
                    its.reverse()
                elif isinstance(order, list):
                    random.Random(order[1] * 1000 + b).shuffle(its)
                for pos, (key, arg) in enumerate(its):
                    if raise_at and raise_at[0] == b and raise_at[1] == pos:
                        end('raise')
                        raise RAISEFAM[sc.get('excfam', 'plain')](b)
                    if sc.get('item_dur', 0.0) > 0:
                        await asyncio.sleep(sc['item_dur'])
                    beh = behav.get(key, 'value')
                    if beh == 'omit':
                        continue
                    ny[0] += 1
                    tag = [b, key, ny[0]]
                    if beh == 'unknown':
                        end('misbehave')
                        yield 'no-such-key-%d' % ny[0], Val(tag)
                        continue
                    if beh == 'excval':
                        ctl.log('Yield', b=b, key=key, tag=tag, kind='exc')
                        yield key, EXCFAM[sc.get('excfam', 'plain')](tag)
                    else:
                        ctl.log('Yield', b=b, key=key, tag=tag, kind='val')
                        yield key, Val(tag)
                    if beh == 'dup':
                        ny[0] += 1
                        end('misbehave')
                        yield key, Val([b, key, ny[0]])
                if raise_at and raise_at[0] == b and raise_at[1] >= len(its):
                    end('raise')
                    raise RAISEFAM[sc.get('excfam', 'plain')](b)
                if sc.get('tail_dur', 0.0) > 0:      # work the function does after its last result (clean-up, commit ...)
                    await asyncio.sleep(sc['tail_dur'])
                end('ok')
            except asyncio.CancelledError:
                end('cancel')
                raise
            except GeneratorExit:
                end('closed')
                raise
        return gen()

    def make(loop):
        form = sc.get('form', 'class')
        if form == 'class':
            return A.AsyncBackgroundBatcher(batch_fn, **opts)
        if form == 'deco_direct':
            return A.async_background_batcher(batch_fn, **opts)
        if form == 'deco_options':
            return A.async_background_batcher(**opts)(batch_fn)
        if form == 'deco_bare':
            return A.async_background_batcher(batch_fn)
        raise ValueError(form)

    proj_obj = [None]
    _orig_log = ctl.log

    def log_with_proj(e, **kw):
        d = _orig_log(e, **kw)
        b = proj_obj[0]
        if b is not None and e in ('Call', 'CallEnd', 'Cancel', 'BatchStart', 'Yield', 'BatchEnd'):
            try:
                d['st'] = {'q': b._queue.qsize(), 'keys': sorted(b._retention_cache), 'sem': b._semaphore._value}
            except Exception:
                pass
        return d
    ctl.log = log_with_proj

    shared = {}
    if sc.get('form', 'class') != 'class':
        shared['fn'] = make(None)      # decorated once, outside any loop

    loops = sc.get('loops') or [{'name': 'L1', 'start': 0.0, 'end': sc.get('end', 60.0)}]

    def loop_thread(ls):
        name = ls['name']
        if ls.get('start', 0) > 0:
            ctl.sleep(ls['start'])
        loop = rt.VLoop(name)
        keep.append(loop)
        asyncio.set_event_loop(loop)
        tasks = {}
        t0 = ctl.now

        async def caller(cs, fn):
            i = cs['i']
            key = cs.get('key')
            eff_key = key if key is not None else str(cs['arg'])
            tmo = cs.get('tmo')
            ctl.log('Call', i=i, key=eff_key, loop=name, tmo=-1 if tmo is None else ms(tmo))
            try:
                coro = fn(cs['arg'], key=key) if key is not None else fn(cs['arg'])
                v = await (coro if tmo is None else asyncio.wait_for(coro, tmo))
            except TaggedExc as e:
                ctl.log('CallEnd', i=i, kind='exc', tag=e.tag, exctype='TaggedExc')
            except BatchError as e:
                ctl.log('CallEnd', i=i, kind='batchexc', tag=[e.b, '', 0], exctype='BatchError')
            except asyncio.TimeoutError:
                ctl.log('CallEnd', i=i, kind='timeout', tag=[0, '', 0], exctype='TimeoutError')
            except asyncio.CancelledError:
                ctl.log('CallEnd', i=i, kind='cancel', tag=[0, '', 0], exctype='CancelledError')
            except BaseException as e:
                if isinstance(e, rt.Hang):
                    raise
                ctl.log('CallEnd', i=i, kind='other', tag=[0, '', 0], exctype=type(e).__name__)
            else:
                if isinstance(v, Val):
                    ctl.log('CallEnd', i=i, kind='val', tag=v.tag, exctype='')
                elif isinstance(v, TaggedExc):
                    ctl.log('CallEnd', i=i, kind='excasval', tag=v.tag, exctype='')
                else:
                    ctl.log('CallEnd', i=i, kind='other', tag=[0, '', 0], exctype='value:' + type(v).__name__)

        async def chained(cs, fn):
            await caller(cs, fn)
            for k in range(cs.get('chain', 0)):
                # an immediate retry with the same argument, in the same task step as the answer
                await caller(dict(cs, i=cs['i'] * 100 + k + 1, chain=0), fn)

        def do_cancel(i):
            t = tasks.get(i)
            if t is not None and not t.done():
                ctl.log('Cancel', i=i)
                t.cancel()

        async def warm_other():
            # another batcher object (its own batch function) has served the same keys in this process before and
            # still retains its results: nothing of that may show through in the batcher under test
            async def other_fn(items):
                for k, a in items:
                    yield k, ('other-batcher', k)
            other = A.AsyncBackgroundBatcher(other_fn, max_batch_size=8, batch_timeout=0.0, retention_timeout=100000.0)
            keep.append(other)
            ks = sorted({(str(cs['arg']), cs.get('key')) for cs in sc['calls']})
            await asyncio.gather(*[other(a, key=k) if k is not None else other(a) for a, k in ks], return_exceptions=True)

        async def main():
            if sc.get('warm_other'):
                await warm_other()
            fn = shared.get('fn') or make(loop)
            keep.append(fn)
            if sc.get('form', 'class') == 'class' and len(loops) == 1:
                proj_obj[0] = fn
            mine = [cs for cs in sc['calls'] if cs.get('loop', 'L1') == name]

            def hop(k, i):
                if k <= 0:
                    do_cancel(i)
                else:
                    loop.call_soon(hop, k - 1, i)

            def start(cs):
                tasks[cs['i']] = loop.create_task(chained(cs, fn) if cs.get('chain') else caller(cs, fn))
                if cs.get('cancel_iters') is not None:
                    # cancel this caller a given number of loop iterations after it was started
                    loop.call_soon(hop, cs['cancel_iters'], cs['i'])
            def later(k, cs):
                if k <= 0:
                    start(cs)
                else:
                    loop.call_soon(later, k - 1, cs)
            sched = []
            for cs in mine:
                if cs.get('start_iters'):
                    sched.append((cs['at'], later, (cs['start_iters'], cs)))
                else:
                    sched.append((cs['at'], start, (cs,)))
            for cs in mine:
                if cs.get('cancel_at') is not None:
                    sched.append((cs['cancel_at'], do_cancel, (cs['i'],)))

            def setmax(n):
                ctl.log('SetMax', n=n)
                fn.max_batch_size = n
            for sm in sc.get('setmax', []):
                sched.append((sm['at'], setmax, (sm['n'],)))

            def collect():
                import gc
                gc.collect()       # a garbage collection at this instant (the harness keeps automatic collection off)
            for t in sc.get('gc_at', []):
                sched.append((t, collect, ()))
            rt.call_in_order(loop, t0, sched)
            if ls.get('pause'):
                # the thread leaves its loop for a while (run_until_complete returns, everything stays pending) ...
                await asyncio.sleep(ls['pause'][0])
                return
            await asyncio.sleep(ls.get('end', sc.get('end', 60.0)))
            ctl.log('Quiescent', loop=name)

        loop.run_until_complete(main())
        if ls.get('pause'):
            ctl.sleep(ls['pause'][1] - ls['pause'][0])

            async def rest():        # ... and comes back to it later
                await asyncio.sleep(max(0.0, t0 + ls.get('end', sc.get('end', 60.0)) - loop.time()))
                ctl.log('Quiescent', loop=name)
            loop.run_until_complete(rest())
        rt.shutdown_loop(loop)

    for ls in loops:
        ctl.spawn(ls['name'], loop_thread, ls)
    ctl.start()
    if not rt.wait_finished(ctl, sc.get('wall', 6.0)):
        ctl.status = 'stuck'
    ctl.log('End', status=ctl.status if ctl.status in ('ok', 'hang') else 'stuck')
    return rt.result_payload(ctl, {'batches': nb[0]})
