"""
Driver for aiuti.filelock (C02, C12): real FileLock objects on real descriptors and the real
flock(2); only *waiting* is virtual (in-process locks, kernel-lock waiting, time, sleep).

Scenario:
 {"mode": "seq" | "conc",
  "cfg": {"reentrant": [bool,...], "deftimeout": [ms,...], "poll": 50},
  "seq": [[op, thr, o, blocking, timeout_ms, fault], ...]            (mode seq, C12)
  "threads": {"T1": [round, ...], ...}                                 (mode conc, C02)
     round = {"form": "acquire"|"ctx"|"with", "o": 1, "blocking": true, "timeout": ms|-2,
              "hold": seconds, "nest": 0|1}
  "strategy": {...}, "trace": bool}
"""
import os
import errno
import fcntl as _fcntl
import time as _time
import threading as _threading
import tempfile

from harness import rt, pool

_F = None
_INTERESTING = {}
FILES = None


def worker_init():
    global _F, FILES
    pool.import_aiuti()
    import aiuti.filelock as F
    _F = F
    FILES = pool.aiuti_files()
    global _INTERESTING
    _INTERESTING = {FILES['filelock']: rt.interesting_lines(FILES['filelock'])}


class Shim:
    """State shared by the os/fcntl/time/threading shims of one execution."""
    def __init__(self, ctl):
        self.ctl = ctl
        self.fds = set()
        self.kernel = object()     # what blocked flock() callers park on
        self.fault = None          # site to fail once: open|lock|unlock|close
        self.fired = 0
        self.plan = {}             # site -> set of occurrence indexes (1-based) that fail
        self.seen = {}

    def _maybe_fault(self, site):
        self.seen[site] = self.seen.get(site, 0) + 1
        if self.seen[site] in self.plan.get(site, ()):
            self.fired += 1
            self.ctl.log('Fault', site=site, nth=self.seen[site])
            return True
        if self.fault == site:
            self.fault = None
            self.fired += 1
            return True
        return False

    # os
    def open(self, path, flags, mode=0o777, **kw):
        self.ctl.point('os.open')
        if self._maybe_fault('open'):
            raise OSError(errno.EMFILE, 'injected: too many open files')
        fd = os.open(path, flags, mode, **kw)
        self.fds.add(fd)
        return fd

    def close(self, fd):
        self.ctl.point('os.close')
        os.close(fd)               # the descriptor is always released (Linux semantics)
        self.fds.discard(fd)
        self.ctl.unblock(self.kernel)
        if self._maybe_fault('close'):
            raise OSError(errno.EIO, 'injected: close failed')

    # fcntl
    def flock(self, fd, op):
        ctl = self.ctl
        ctl.point('flock')
        if op & _fcntl.LOCK_UN:
            if self._maybe_fault('unlock'):
                raise OSError(errno.ENOLCK, 'injected: unlock failed')
            _fcntl.flock(fd, op)
            ctl.unblock(self.kernel)
            return
        if self._maybe_fault('lock'):
            raise OSError(errno.ENOLCK, 'injected: no locks available')
        while True:
            try:
                _fcntl.flock(fd, op | _fcntl.LOCK_NB)
                return
            except OSError as e:
                if e.errno not in (errno.EWOULDBLOCK, errno.EAGAIN):
                    raise
                if op & _fcntl.LOCK_NB:
                    raise
            ctl.block(self.kernel)   # wait (virtually) until somebody unlocks / closes


def patch_filelock_module(F, shim):
    ctl = shim.ctl
    F.os = rt._NS(os, open=shim.open, close=shim.close)
    F.fcntl = rt._NS(_fcntl, flock=shim.flock)
    F.time = rt._NS(_time, time=lambda: ctl.now, sleep=ctl.sleep)
    F.threading = rt._NS(_threading, Lock=rt.CLock, RLock=rt.CRLock)


def _tl_owner(lock):
    tl = getattr(lock, '_thread_lock', None)
    o = getattr(tl, '_owner', None)
    return o or ''


def execute(sc):
    F = _F
    import gc
    gc.disable()
    trace = sc.get('trace', sc['mode'] == 'conc')
    ctl = rt.install(rt.Ctl(rt.make_strategy(sc.get('strategy', {'kind': 'replay', 'prefix': []})),
                            trace_files=[FILES['filelock']] if trace else (),
                            opcode_files=[FILES['filelock']] if sc.get('opcodes') else (),
                            max_steps=sc.get('max_steps', 40000)))
    ctl.interesting = _INTERESTING
    ctl.stalls = {k: v for k, v in sc.get('stalls', {}).items()}     # thread -> [nth aiuti line, virtual seconds]
    shim = Shim(ctl)
    for f in sc.get('faults', []):
        shim.plan.setdefault(f['site'], set()).add(f['nth'])
    patch_filelock_module(F, shim)
    d = tempfile.mkdtemp(prefix='vlock-')
    path = os.path.join(d, 'the.lock')
    cfg = sc['cfg']
    _POLL[0] = cfg['poll'] / 1000.0 if cfg.get('poll', 50) != 50 else None
    objs = {}
    for i, re_ in enumerate(cfg['reentrant']):
        dt = cfg['deftimeout'][i]
        objs[i + 1] = F.FileLock(path, timeout=(dt / 1000.0 if dt >= 0 else -1), reentrant=re_)
    ctl.log('Config', reentrant=list(cfg['reentrant']), deftimeout=list(cfg['deftimeout']),
            poll=cfg.get('poll', 50))

    def observe():
        return {'locked': [bool(objs[o].is_locked) for o in sorted(objs)],
                'fds': len(shim.fds),
                'tl': [_tl_owner(objs[o]) for o in sorted(objs)]}

    if sc['mode'] == 'conc' and sc.get('proj', True):
        _orig_log = ctl.log

        def log_with_proj(e, **kw):
            d = _orig_log(e, **kw)
            if e in ('AcqCall', 'AcqRet', 'Exit', 'RelRet'):
                try:
                    # (attributes are read directly: the is_locked property is an aiuti frame, i.e. a yield point)
                    d['st'] = {'o%d' % o: [objs[o]._lock_file_fd is not None, int(objs[o]._lock_counter), _tl_owner(objs[o]) or 'none']
                               for o in sorted(objs)}
                except Exception:
                    pass
            return d
        ctl.log = log_with_proj
    try:
        if sc['mode'] == 'seq':
            _run_seq(sc, ctl, shim, objs, observe)
        else:
            _run_conc(sc, ctl, shim, objs, observe)
        ctl.start()
        if not rt.wait_finished(ctl, sc.get('wall', 6.0)):
            ctl.status = 'stuck'
        ctl.log('End', status=ctl.status if ctl.status in ('ok', 'hang') else 'stuck', fds=len(shim.fds))
        return rt.result_payload(ctl)
    finally:
        for fd in list(shim.fds):
            try:
                os.close(fd)
            except OSError:
                pass
        try:
            os.unlink(path)
        except OSError:
            pass
        try:
            os.rmdir(d)
        except OSError:
            pass


_POLL = [None]      # explicit poll_interval (seconds) passed to acquire() / acquire_ctx(), or None for the default


def _kwargs(blocking, timeout_ms):
    kw = {'blocking': bool(blocking)}
    if timeout_ms != -2:
        kw['timeout'] = timeout_ms / 1000.0 if timeout_ms >= 0 else -1
    if _POLL[0] is not None:
        kw['poll_interval'] = _POLL[0]
    return kw


def _run_seq(sc, ctl, shim, objs, observe):
    seq = sc['seq']
    turn = [0]
    TURN = object()
    stacks = {}

    def do(op, thr, o, blocking, tmo, fault):
        lock = objs[o]
        shim.fault = fault or None
        t0 = ctl.t_ms()
        res = 'none'
        try:
            if op == 'acquire':
                res = 'true' if lock.acquire(**_kwargs(blocking, tmo)) else 'false'
                if res not in ('true', 'false'):
                    res = 'other'
            elif op == 'release':
                lock.release()
            elif op == 'release_force':
                lock.release(force=True)
            elif op == 'ctx_enter':
                cm = lock.acquire_ctx(**_kwargs(blocking, tmo))
                cm.__enter__()
                stacks.setdefault(thr, []).append(cm)
                res = 'ok'
            elif op == 'with_enter':
                lock.__enter__()
                stacks.setdefault(thr, []).append(lock)
                res = 'ok'
            elif op in ('ctx_exit', 'with_exit'):
                cm = stacks[thr].pop()
                cm.__exit__(None, None, None)
            else:
                raise ValueError(op)
        except TimeoutError:
            res = 'timeout'
        except rt.Hang:
            raise
        except BaseException as e:
            res = 'exc:' + type(e).__name__
        shim.fault = None
        ob = observe()
        ctl.log('Op', op=op, thr=thr, o=o, blocking=bool(blocking), timeout=tmo, fault=fault or '',
                res=res, dt=ctl.t_ms() - t0, **ob)

    def body(me):
        while turn[0] < len(seq):
            op = seq[turn[0]]
            if op[1] == me:
                do(*op)
                turn[0] += 1
                ctl.unblock(TURN)
            else:
                ctl.block(TURN)

    for t in sorted({op[1] for op in seq} or {'T1'}):
        ctl.spawn(t, body, t)


def _run_conc(sc, ctl, shim, objs, observe):
    hid = [0]

    def section(h, hold):
        ctl.log('Enter', h=h)
        ctl.point('section')
        if hold > 0:
            ctl.sleep(hold)
        ctl.log('Exit', h=h)

    def one_round(me, r, depth=0):
        hid[0] += 1
        h = hid[0]
        lock = objs[r['o']]
        form = r['form']
        tmo = r.get('timeout', -2)
        kw = _kwargs(r.get('blocking', True), tmo)
        ctl.log('AcqCall', h=h, thr=me, o=r['o'], form=form, blocking=kw['blocking'], timeout=tmo)
        hold = r.get('hold', 0)

        def inner():
            if r.get('nest') and depth == 0:
                one_round(me, dict(r, nest=0), depth + 1)

        try:
            if form == 'acquire':
                ok = lock.acquire(**kw)
                ctl.log('AcqRet', h=h, res='true' if ok else 'false')
                if ok:
                    try:
                        section(h, hold)
                        inner()
                    finally:
                        ctl.log('RelCall', h=h)
                        lock.release()
                        ctl.log('RelRet', h=h)
            elif form == 'ctx':
                with lock.acquire_ctx(**kw):
                    ctl.log('AcqRet', h=h, res='true')
                    section(h, hold)
                    inner()
                    ctl.log('RelCall', h=h)
                ctl.log('RelRet', h=h)
            elif form == 'with':
                with lock:
                    ctl.log('AcqRet', h=h, res='true')
                    section(h, hold)
                    inner()
                    ctl.log('RelCall', h=h)
                ctl.log('RelRet', h=h)
        except TimeoutError:
            ctl.log('AcqRet', h=h, res='timeout')

    def body(me, rounds):
        for r in rounds:
            if r.get('delay', 0) > 0:
                ctl.sleep(r['delay'])
            if r.get('spurious'):      # release() of an object this thread does not hold: documented as a no-op
                ctl.log('SpuriousRel', thr=me, o=r['spurious'])
                try:
                    objs[r['spurious']].release()
                except rt.Hang:
                    raise
                except BaseException as e:
                    ctl.log('SpuriousRelRaised', thr=me, o=r['spurious'], exctype=type(e).__name__)
                ctl.log('SpuriousRelDone', thr=me, o=r['spurious'])
                if r.get('only_spurious'):
                    continue
            one_round(me, r)

    workers = []
    for t, rounds in sorted(sc['threads'].items()):
        workers.append(ctl.spawn(t, body, t, rounds))

    if sc.get('final_probe'):
        def prober():
            # when everybody is done nothing may be left behind: every object can take the lock (and gives it back)
            for ts in workers:
                ctl.join(ts)
            # every round has released what it acquired: no object may still say that it holds the lock
            ctl.log('FinalState', fds=len(shim.fds), locked=[bool(objs[x]._lock_file_fd is not None) for x in sorted(objs)],
                    tl=[_tl_owner(objs[x]) or 'none' for x in sorted(objs)])
            for o in sorted(objs):
                try:
                    ok = bool(objs[o].acquire(blocking=False))
                    if ok:
                        objs[o].release()
                except rt.Hang:
                    raise
                except BaseException:
                    ok = False
                ctl.log('FinalProbe', o=o, ok=ok, fds=len(shim.fds), locked=[bool(objs[x]._lock_file_fd is not None) for x in sorted(objs)])
        ctl.spawn('Z', prober)
